#!/bin/bash
# Builds every simulator binary offline from /repo's current working tree and /verif/sim.
# usage: build.sh [fs|cache|world|all]   (default all)
set -u
cd "$(dirname "$0")"
export CARGO_NET_OFFLINE=true CARGO_TARGET_DIR=/verif/target
mkdir -p bin
what="${1:-all}"
fail() { echo "HARNESS-ERROR: build failed: $1" >&2; exit 2; }
quiet() { "$@" > /verif/target/last_build.log 2>&1 || { tail -40 /verif/target/last_build.log >&2; return 1; }; }
mkdir -p /verif/target

build_fs() {
  for fmt in json yaml json5; do
    (cd sim/sim_fs && quiet cargo build --release --offline --features "fmt_${fmt} macro_cfg_default") || fail "sim_fs ${fmt}"
    cp -f target/release/sim_fs "bin/sim_fs_${fmt}" || fail "copy sim_fs_${fmt}"
  done
  # the code generator under other feature configurations (json only)
  for v in dyn_hydrate:dynhyd dyn_ssr:dynssr dyn_csr:dyncsr misc:misc bare:bare quiet:quiet; do
    (cd sim/sim_fs && quiet cargo build --release --offline --features "fmt_json macro_cfg_${v%%:*}") || fail "sim_fs json ${v##*:}"
    cp -f target/release/sim_fs "bin/sim_fs_json_${v##*:}" || fail "copy sim_fs_json_${v##*:}"
  done
}
build_cache() {
  if [ -d sim/sim_cache ]; then
    (cd sim/sim_cache && quiet cargo build --release --offline --features compiled) || fail "sim_cache compiled"
    cp -f target/release/sim_cache bin/sim_cache_compiled || fail "copy sim_cache_compiled"
    (cd sim/sim_cache && quiet cargo build --release --offline --features faulty) || fail "sim_cache faulty"
    cp -f target/release/sim_cache bin/sim_cache_faulty || fail "copy sim_cache_faulty"
  fi
}
build_world() {
  if [ -d sim/sim_world ]; then
    for v in ssr fx dyn nc ax; do
      (cd sim/sim_world && quiet cargo build --release --offline --features "world_${v}") || fail "sim_world ${v}"
      cp -f target/release/sim_world "bin/world_${v}" || fail "copy world_${v}"
    done
  fi
}
case "$what" in
  fs) build_fs ;;
  cache) build_cache ;;
  world) build_world ;;
  all) build_fs; build_cache; build_world ;;
  *) echo "unknown target $what" >&2; exit 2 ;;
esac
echo "build ok: $what"
