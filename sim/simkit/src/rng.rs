//! SplitMix64-seeded xoshiro256**: the only source of randomness in the simulators.
#[derive(Clone, Debug)]
pub struct Rng {
    s: [u64; 4],
    pub draws: u64,
}

fn splitmix(x: &mut u64) -> u64 {
    *x = x.wrapping_add(0x9E3779B97F4A7C15);
    let mut z = *x;
    z = (z ^ (z >> 30)).wrapping_mul(0xBF58476D1CE4E5B9);
    z = (z ^ (z >> 27)).wrapping_mul(0x94D049BB133111EB);
    z ^ (z >> 31)
}

impl Rng {
    pub fn new(seed: u64) -> Self {
        let mut x = seed;
        let s = [splitmix(&mut x), splitmix(&mut x), splitmix(&mut x), splitmix(&mut x)];
        Rng { s, draws: 0 }
    }
    /// independent stream for run `i` of a batch
    pub fn for_run(seed: u64, i: u64) -> Self {
        let mut x = seed ^ i.wrapping_mul(0xD6E8FEB86659FD93);
        let a = splitmix(&mut x);
        Rng::new(a ^ i)
    }
    pub fn next_u64(&mut self) -> u64 {
        self.draws += 1;
        let r = self.s[1].wrapping_mul(5).rotate_left(7).wrapping_mul(9);
        let t = self.s[1] << 17;
        self.s[2] ^= self.s[0];
        self.s[3] ^= self.s[1];
        self.s[1] ^= self.s[2];
        self.s[0] ^= self.s[3];
        self.s[2] ^= t;
        self.s[3] = self.s[3].rotate_left(45);
        r
    }
    /// uniform in 0..n (n > 0)
    pub fn below(&mut self, n: usize) -> usize {
        assert!(n > 0);
        (self.next_u64() % n as u64) as usize
    }
    pub fn range(&mut self, lo: usize, hi_incl: usize) -> usize {
        lo + self.below(hi_incl - lo + 1)
    }
    /// true with probability num/den
    pub fn chance(&mut self, num: u32, den: u32) -> bool {
        (self.next_u64() % den as u64) < num as u64
    }
    pub fn pick<'a, T>(&mut self, xs: &'a [T]) -> &'a T {
        &xs[self.below(xs.len())]
    }
    pub fn shuffle<T>(&mut self, xs: &mut [T]) {
        for i in (1..xs.len()).rev() {
            let j = self.below(i + 1);
            xs.swap(i, j);
        }
    }
}
