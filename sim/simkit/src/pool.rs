//! Pool of worker *processes* speaking one JSON line per case on stdin/stdout.
//! A worker that dies (abort, stack overflow, signal) or stays silent longer than the
//! watchdog is killed and respawned; the case in flight is reported as `Died`/`Hung`.
//! Results are stored by case index, so the outcome is independent of the worker count.
use serde_json::Value;
use std::io::{BufRead, BufReader, Write};
use std::process::{Child, ChildStdin, Command, Stdio};
use std::sync::atomic::{AtomicUsize, Ordering};
use std::sync::mpsc::{channel, Receiver, RecvTimeoutError};
use std::sync::{Arc, Mutex};
use std::time::Duration;

#[derive(Clone, Debug)]
pub enum Reply {
    /// the worker answered with this JSON value
    Ok(Value),
    /// the worker process ended while the case was in flight (exit status / signal text, stderr tail)
    Died(String),
    /// no answer within the watchdog
    Hung,
    /// not run: the batch was cut short after repeated hangs / worker deaths (those are reported; the rest is not explored)
    Skipped,
}

pub struct PoolConfig {
    pub exe: String,
    pub args: Vec<String>,
    pub envs: Vec<(String, String)>,
    pub workers: usize,
    pub watchdog: Duration,
    /// stop dispatching new cases once this many cases hung or killed their worker (0 = never)
    pub max_lost: usize,
}

struct Worker {
    child: Child,
    stdin: ChildStdin,
    rx: Receiver<Option<String>>,
    stderr_tail: Arc<Mutex<Vec<String>>>,
}

fn spawn(cfg: &PoolConfig) -> Worker {
    let mut cmd = Command::new(&cfg.exe);
    cmd.args(&cfg.args).stdin(Stdio::piped()).stdout(Stdio::piped()).stderr(Stdio::piped());
    for (k, v) in &cfg.envs {
        cmd.env(k, v);
    }
    let mut child = cmd.spawn().unwrap_or_else(|e| crate::harness_error(&format!("cannot spawn worker {}: {e}", cfg.exe)));
    let stdin = child.stdin.take().unwrap();
    let stdout = child.stdout.take().unwrap();
    let stderr = child.stderr.take().unwrap();
    let (tx, rx) = channel();
    std::thread::spawn(move || {
        let mut r = BufReader::new(stdout);
        loop {
            let mut line = String::new();
            match r.read_line(&mut line) {
                Ok(0) | Err(_) => {
                    let _ = tx.send(None);
                    break;
                }
                Ok(_) => {
                    if tx.send(Some(line)).is_err() {
                        break;
                    }
                }
            }
        }
    });
    let tail = Arc::new(Mutex::new(Vec::new()));
    let tail2 = tail.clone();
    std::thread::spawn(move || {
        let r = BufReader::new(stderr);
        for line in r.lines() {
            let Ok(line) = line else { break };
            let mut t = tail2.lock().unwrap();
            t.push(line);
            if t.len() > 12 {
                t.remove(0);
            }
        }
    });
    Worker { child, stdin, rx, stderr_tail: tail }
}

impl Worker {
    fn kill(&mut self) -> String {
        let _ = self.child.kill();
        let status = self.child.wait().map(|s| format!("{s}")).unwrap_or_else(|e| format!("wait failed: {e}"));
        std::thread::sleep(Duration::from_millis(20));
        let tail = self.stderr_tail.lock().unwrap().join(" | ");
        format!("{status}; stderr: {tail}")
    }
}

/// Run every case; `cases[i]` is sent as one line; the reply is one line of JSON.
pub fn run_all(cfg: &PoolConfig, cases: &[Value]) -> Vec<Reply> {
    let n = cases.len();
    let results: Arc<Mutex<Vec<Option<Reply>>>> = Arc::new(Mutex::new(vec![None; n]));
    let next = Arc::new(AtomicUsize::new(0));
    let lost = Arc::new(AtomicUsize::new(0));
    let lines: Arc<Vec<String>> = Arc::new(cases.iter().map(|c| serde_json::to_string(c).unwrap()).collect());
    let workers = cfg.workers.max(1).min(n.max(1));
    std::thread::scope(|scope| {
        for _ in 0..workers {
            let results = results.clone();
            let next = next.clone();
            let lost = lost.clone();
            let lines = lines.clone();
            scope.spawn(move || {
                let mut w: Option<Worker> = None;
                loop {
                    let i = next.fetch_add(1, Ordering::SeqCst);
                    if i >= n {
                        break;
                    }
                    if cfg.max_lost > 0 && lost.load(Ordering::SeqCst) >= cfg.max_lost {
                        results.lock().unwrap()[i] = Some(Reply::Skipped);
                        continue;
                    }
                    if w.is_none() {
                        w = Some(spawn(cfg));
                    }
                    let wk = w.as_mut().unwrap();
                    let sent = wk.stdin.write_all(lines[i].as_bytes()).and_then(|_| wk.stdin.write_all(b"\n")).and_then(|_| wk.stdin.flush());
                    let reply = if sent.is_err() {
                        let info = wk.kill();
                        w = None;
                        Reply::Died(format!("worker stdin closed: {info}"))
                    } else {
                        match wk.rx.recv_timeout(cfg.watchdog) {
                            Ok(Some(line)) => match serde_json::from_str::<Value>(&line) {
                                Ok(v) => Reply::Ok(v),
                                Err(e) => {
                                    let info = wk.kill();
                                    w = None;
                                    Reply::Died(format!("unparseable reply ({e}): {line:?}; {info}"))
                                }
                            },
                            Ok(None) | Err(RecvTimeoutError::Disconnected) => {
                                let info = wk.kill();
                                w = None;
                                Reply::Died(info)
                            }
                            Err(RecvTimeoutError::Timeout) => {
                                let _ = wk.kill();
                                w = None;
                                Reply::Hung
                            }
                        }
                    };
                    if matches!(reply, Reply::Died(_) | Reply::Hung) {
                        lost.fetch_add(1, Ordering::SeqCst);
                    }
                    results.lock().unwrap()[i] = Some(reply);
                }
                if let Some(mut wk) = w {
                    drop(wk.stdin);
                    let _ = wk.child.wait();
                }
            });
        }
    });
    let mut guard = results.lock().unwrap();
    guard.drain(..).map(|r| r.expect("every case has a reply")).collect()
}

/// Run a single case in a fresh worker process (used to confirm a violation before reporting it).
pub fn run_one_fresh(cfg: &PoolConfig, case: &Value) -> Reply {
    let one = PoolConfig { exe: cfg.exe.clone(), args: cfg.args.clone(), envs: cfg.envs.clone(), workers: 1, watchdog: cfg.watchdog, max_lost: 0 };
    run_all(&one, std::slice::from_ref(case)).pop().unwrap()
}
