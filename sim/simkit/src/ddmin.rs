//! Delta debugging over a sequence, plus per-element shrinking.

/// Minimise `items` while `fails(&candidate)` stays true. `fails(items)` must be true.
pub fn ddmin<T: Clone>(items: Vec<T>, fails: &mut dyn FnMut(&[T]) -> bool) -> Vec<T> {
    let mut cur = items;
    let mut n = 2usize;
    while cur.len() >= 2 {
        let chunk = (cur.len() + n - 1) / n;
        let mut reduced = false;
        // try removing each chunk
        let mut start = 0;
        while start < cur.len() {
            let end = (start + chunk).min(cur.len());
            let mut cand = Vec::with_capacity(cur.len() - (end - start));
            cand.extend_from_slice(&cur[..start]);
            cand.extend_from_slice(&cur[end..]);
            if !cand.is_empty() && fails(&cand) {
                cur = cand;
                n = (n - 1).max(2);
                reduced = true;
                break;
            }
            start = end;
        }
        if !reduced {
            if n >= cur.len() {
                break;
            }
            n = (n * 2).min(cur.len());
        }
    }
    // try the empty / single-element forms
    if cur.len() == 1 && fails(&[]) {
        return vec![];
    }
    cur
}

/// Try replacing each element by each of its simpler variants (first that still fails wins); repeat to fixpoint.
pub fn shrink_elements<T: Clone>(
    mut items: Vec<T>,
    simpler: &dyn Fn(&T) -> Vec<T>,
    fails: &mut dyn FnMut(&[T]) -> bool,
    max_rounds: usize,
) -> Vec<T> {
    for _ in 0..max_rounds {
        let mut changed = false;
        for i in 0..items.len() {
            for cand in simpler(&items[i]) {
                let old = std::mem::replace(&mut items[i], cand);
                if fails(&items) {
                    changed = true;
                    break;
                } else {
                    items[i] = old;
                }
            }
        }
        if !changed {
            break;
        }
    }
    items
}
