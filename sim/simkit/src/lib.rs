//! Shared pieces of the deterministic simulators: PRNG, worker pool with watchdog,
//! delta-debugging minimiser, evidence and known-findings files.
pub mod ddmin;
pub mod evidence;
pub mod known;
pub mod pool;
pub mod rng;

pub use rng::Rng;
pub use serde_json::{json, Value};

/// Exit codes shared by all engines.
pub const EXIT_OK: i32 = 0;
pub const EXIT_VIOLATION: i32 = 1;
pub const EXIT_HARNESS: i32 = 2;

/// `VERIF_SEED` or the tier default.
pub fn seed_from_env(default: u64) -> u64 {
    match std::env::var("VERIF_SEED") {
        Ok(s) => s.trim().parse::<u64>().unwrap_or_else(|_| {
            // accept negative / huge numbers by hashing the text
            let mut h = 0xcbf29ce484222325u64;
            for b in s.bytes() {
                h = (h ^ b as u64).wrapping_mul(0x100000001b3);
            }
            h
        }),
        Err(_) => default,
    }
}

/// FNV-1a, used for canonical hashes of traces (never `RandomState`).
pub fn fnv(data: &[u8]) -> u64 {
    let mut h = 0xcbf29ce484222325u64;
    for b in data {
        h = (h ^ *b as u64).wrapping_mul(0x100000001b3);
    }
    h
}

pub fn harness_error(msg: &str) -> ! {
    eprintln!("HARNESS-ERROR: {msg}");
    std::process::exit(EXIT_HARNESS)
}
