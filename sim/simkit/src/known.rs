//! /verif/known_findings.json: committed, read-only at run time.
//! { "findings": [ {"property":"C11","id":"...","match":{"invariant":"..","signature_contains":".."},"what":"..."} ],
//!   "fixed": [ "fixed: property=<id> <commit> <what failed>" ] }
use serde_json::Value;

#[derive(Clone, Debug)]
pub struct Finding {
    pub property: String,
    pub id: String,
    pub invariant: String,
    /// every listed substring must occur in the violation signature
    pub signature_contains: Vec<String>,
    pub what: String,
}

pub fn load(path: &str) -> Vec<Finding> {
    let Ok(text) = std::fs::read_to_string(path) else {
        return vec![];
    };
    let v: Value = match serde_json::from_str(&text) {
        Ok(v) => v,
        Err(e) => crate::harness_error(&format!("known findings file {path} is not JSON: {e}")),
    };
    let mut out = vec![];
    for f in v["findings"].as_array().cloned().unwrap_or_default() {
        out.push(Finding {
            property: f["property"].as_str().unwrap_or("").to_string(),
            id: f["id"].as_str().unwrap_or("").to_string(),
            invariant: f["match"]["invariant"].as_str().unwrap_or("").to_string(),
            signature_contains: f["match"]["signature_contains"]
                .as_array()
                .map(|a| a.iter().filter_map(|s| s.as_str().map(String::from)).collect())
                .unwrap_or_default(),
            what: f["what"].as_str().unwrap_or("").to_string(),
        });
    }
    out
}

/// The listed finding (if any) that covers a violation of `property` with this invariant id and signature.
pub fn matching<'a>(known: &'a [Finding], property: &str, invariant: &str, signature: &str) -> Option<&'a Finding> {
    known.iter().find(|f| {
        f.property == property
            && f.invariant == invariant
            && !f.signature_contains.is_empty()
            && f.signature_contains.iter().all(|s| signature.contains(s.as_str()))
    })
}
