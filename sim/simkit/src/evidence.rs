//! Evidence file writer (schema: /root/.vp/EVIDENCE.schema.json).
use serde_json::{json, Map, Value};
use std::collections::BTreeMap;

#[derive(Default)]
pub struct Evidence {
    pub property_id: String,
    pub tier: String,
    pub seed: u64,
    pub level: String,
    pub evaluations: u64,
    pub distinct_nontrivial: u64,
    pub rule: String,
    pub samples: Vec<Value>,
    pub faults_fired: BTreeMap<String, u64>,
    pub probes: BTreeMap<String, u64>,
    pub extra: Map<String, Value>,
    pub assumptions: Vec<String>,
    pub components: Vec<Value>,
    pub wall_s: f64,
    pub violations: u64,
    pub known_findings: Vec<String>,
}

impl Evidence {
    pub fn to_value(&self) -> Value {
        let mut cov = Map::new();
        cov.insert("evaluations".into(), json!(self.evaluations));
        cov.insert("distinct_nontrivial".into(), json!(self.distinct_nontrivial));
        cov.insert("rule".into(), json!(self.rule));
        cov.insert("samples".into(), json!(self.samples));
        cov.insert("faults_fired".into(), json!(self.faults_fired));
        cov.insert("probes".into(), json!(self.probes));
        cov.insert("components".into(), json!(self.components));
        cov.insert("known_findings_reported".into(), json!(self.known_findings));
        if self.wall_s > 0.0 {
            cov.insert("runs_per_hour".into(), json!((self.evaluations as f64 / self.wall_s * 3600.0) as u64));
        }
        for (k, v) in &self.extra {
            cov.insert(k.clone(), v.clone());
        }
        json!({
            "property_id": self.property_id,
            "tier": self.tier,
            "seed": self.seed,
            "level": self.level,
            "coverage": Value::Object(cov),
            "assumptions": self.assumptions,
            "wall_s": self.wall_s,
            "violations": self.violations,
        })
    }
    pub fn write(&self, path: &str) {
        let text = serde_json::to_string_pretty(&self.to_value()).unwrap() + "\n";
        if let Some(dir) = std::path::Path::new(path).parent() {
            let _ = std::fs::create_dir_all(dir);
        }
        let tmp = format!("{path}.tmp");
        std::fs::write(&tmp, text).unwrap_or_else(|e| crate::harness_error(&format!("cannot write {tmp}: {e}")));
        std::fs::rename(&tmp, path).unwrap_or_else(|e| crate::harness_error(&format!("cannot rename {tmp}: {e}")));
    }
}
