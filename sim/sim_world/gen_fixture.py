#!/usr/bin/env python3
"""Generates the sim_world fixture (committed output): locales/<locale>/<namespace>.json.
Text of every plain key is `<keypath>[<locale>]`, so the expected rendering for a (locale, key) is computable
by the reference model without reading the generated code. Namespace `nasty` holds the string contents
C17 names (quotes, backslashes, newlines, </script>, <!--, U+2028, non-ASCII)."""
import json, os
HERE = os.path.dirname(os.path.abspath(__file__))
# `pt-br` is spelled non-canonically on purpose (its canonical form is pt-BR): the configured name is what cookies,
# the embedded translations and `<html lang>` carry. `zh` is declared before its script refinement `zh-Hant`.
LOCALES = ["en", "fr", "fr-CA", "de", "pt-br", "zh", "zh-Hant", "ar"]

def common(l):
    return {
        "hello": f"hello[{l}]",
        "bye": f"bye[{l}] {{{{ name }}}}",
        "app": {"name": f"app.name[{l}]", "version": f"app.version[{l}] {{{{ v }}}}", "deep": {"leaf": f"app.deep.leaf[{l}]", "twig": f"app.deep.twig[{l}]"}},
    }

def home(l):
    return {"title": f"title[{l}]", "sub": {"line": f"sub.line[{l}]"}, "lead": f"<b>lead[{l}]</b> tail"}

def nasty(l):
    return {
        "quote": f"say \"hi\" [{l}]",
        "backslash": f"back\\slash \\n \\\" [{l}]",
        "newline": f"line one\nline two\r\n\ttabbed [{l}]",
        "script": f"before </script><script>alert(1)</script> after [{l}]",
        "comment": f"<!-- not a comment --> ]]> [{l}]",
        "seps": f"ls\u2028ps\u2029end [{l}]",
        "unicode": f"\u00e9\u00e8\u00a0\u200b\u65e5\u672c\u8a9e \U0001F600 \u200f [{l}]",
        "controls": f"bell\u0007 nul-free \u0001 del\u007f [{l}]",
        "nul": f"field\u00007 of 9, \u000012 and \u00008 [{l}]",
        "single": f"it's 'quoted' `backtick` ${{x}} [{l}]",
        "amp": f"a & b < c > d [{l}]",
        "script_upper": f"x </SCRIPT> y </ScRiPt > z <SCRIPT>w [{l}]",
        "comment_script": f"<!--<script> still inside </script --> [{l}]",
        # characters an escaper has a special case for, first / last / twice in a row
        "edge_first": f"\u2028 starts with a line separator [{l}]",
        "edge_last": f"[{l}] ends with a paragraph separator\u2029",
        "edge_bs_last": f"[{l}] ends with a backslash \\",
        "edge_quote_first": f"\"[{l}]\"",
        "edge_twice": f"\\\\ \"\" \u2028\u2028\u2029\u2029 ]]>]]> --!> --> \r\r\n\n\r [{l}]",
        "edge_lt": f"< <! <!- </ </s </scrip </script [{l}] <",
        "c1": f"del\u007f pad\u0080 nel\u0085 apc\u009f shy\u00ad bom\ufeff nonchar\ufffe\uffff last-astral\U0010ffff [{l}]",
        "long": f"[{l}] " + "".join(f"{i:04d}\u00e9\"\\\u2028</script>\U0001F600\n" for i in range(700)),
    }

def bare(l):
    # for some locales this unit has NO string literal at all (only an interpolation): an empty table
    if l in ("en", "de"):
        return {"only": "{{ x }}", "num": 7}
    return {"only": f"{{{{ x }}}} [{l}]", "num": 7}

def side_bar(l):
    # a namespace whose name is not an identifier
    return {"title": f"side.title[{l}]", "entry": f"side.entry[{l}] {{{{ n }}}}"}

def partial(l):
    # keys some locales leave out: `only_default` exists in the default locale only, `from_parent` in en and fr
    # (fr-CA inherits fr in the configuration, every other locale falls back to the default locale)
    d = {"here": f"here[{l}]"}
    if l in ("en", "fr"):
        d["from_parent"] = f"from.parent[{l}]"
    if l == "en":
        d["only_default"] = "only.default[en]"
    return d

for l in LOCALES:
    d = os.path.join(HERE, "locales", l)
    os.makedirs(d, exist_ok=True)
    for ns, f in [("common", common), ("home", home), ("nasty", nasty), ("bare", bare), ("side-bar", side_bar), ("partial", partial)]:
        with open(os.path.join(d, f"{ns}.json"), "w", encoding="utf-8") as fh:
            json.dump(f(l), fh, indent=1, ensure_ascii=False)
            fh.write("\n")
print("ok")
