//! Session driver: a client (cookie jar, Accept-Language) loads a page several times; each page load is a
//! root owner in which contexts, sub-contexts, scoped views, readers and subscriptions are created and
//! driven by an operation history while the seeded executor decides when each effect task runs.
//! A sequential reference model is checked after every operation (C16) and at every creation point (C15).
use crate::exec::{self, Policy, Scheduler};
use crate::fixture::{self, loc, loc_index, Reader, ViewH, LOCS};
use crate::i18n::Locale;
use leptos::prelude::*;
use leptos_i18n::context::{init_i18n_context_with_options, init_i18n_subcontext_with_options, CookieOptions, I18nContextOptions, UseLocalesOptions};
use leptos_i18n::I18nContext;
use serde_json::{json, Value};
use simkit::Rng;
use std::collections::BTreeMap;
use std::sync::{Arc, Mutex};

pub const EFFECTS: bool = cfg!(any(feature = "world_fx", feature = "world_ax"));
/// the library's `axum` feature: default getters read `http::request::Parts` from the reactive context
pub const AXUM: bool = cfg!(feature = "world_ax");
/// the library's `cookie` feature (off in the world_nc build): without it cookies are never read or written
pub const COOKIES: bool = !cfg!(feature = "world_nc");
const DEFAULT_COOKIE: &str = "i18n_pref_locale";

// ------------------------------------------------------------------ operations

#[derive(Debug, Clone, PartialEq)]
pub enum Op {
    /// `via_provider`: through `provide_i18n_context_with_options_inner` (what `<I18nContextProvider>` calls) instead of init + provide_context
    CreateMain { enable_cookie: bool, cookie_name: Option<String>, via_provider: bool },
    /// `parent`: index into live contexts (modulo); `initial`: 0 none, 1 const, 2 wired
    /// `via`: 0 `init_i18n_subcontext_with_options` + provide_context, 1 the deprecated `provide_i18n_subcontext`,
    /// 2 `i18n_sub_context_provider_island` (what the island `<I18nSubContextProvider>` calls);
    /// 3 the same, called in the owner its parent's other provider children are called in (several `<I18nSubContextProvider>`
    /// written next to each other in one component body: components have no owner of their own);
    /// `in_region`: created inside a reactive region (a `RenderEffect`, as `{move || view!{..}}`, `<Show>` or an outlet are)
    CreateSub { parent: usize, initial: u8, init_locale: usize, sig: usize, cookie_name: Option<String>, via: u8, in_region: bool },
    NewSignal { l: usize },
    Scope { view: usize, which: usize },
    /// `in_observer`: the call is made while a reactive observer is running (inside a `RenderEffect` body), as a
    /// router's path effect or a derived-state effect would
    Set { view: usize, l: usize, in_observer: bool },
    SetUntracked { view: usize, l: usize },
    WriteWired { sig: usize, l: usize },
    MakeReader { view: usize, which: usize },
    Read { reader: usize },
    Get { view: usize },
    Subscribe { view: usize },
    SubscribeReader { reader: usize },
    /// `resolve_locale_with_options` called somewhere below live contexts, with its own options
    /// `accept`: the call is fed from another source than the page's contexts (its own Accept-Language header getter)
    Resolve { ctx: usize, enable_cookie: bool, cookie_name: Option<String>, accept: Option<String> },
    Dispose { ctx: usize },
    Step { k: usize },
    Flush,
}

impl Op {
    pub fn to_json(&self) -> Value {
        match self {
            Op::CreateMain { enable_cookie, cookie_name, via_provider } => json!({"op": "create_main", "enable_cookie": enable_cookie, "cookie_name": cookie_name, "via_provider": via_provider}),
            Op::CreateSub { parent, initial, init_locale, sig, cookie_name, via, in_region } => json!({"op": "create_sub", "parent": parent, "initial": match initial { 0 => "none", 1 => "const", _ => "wired" }, "init_locale": LOCS[*init_locale % LOCS.len()], "sig": sig, "cookie_name": cookie_name, "via": match via { 0 => "init", 1 => "deprecated_provide", 3 => "island_fn_same_owner", _ => "island_fn" }, "in_region": in_region}),
            Op::NewSignal { l } => json!({"op": "new_signal", "l": LOCS[*l % LOCS.len()]}),
            Op::Scope { view, which } => json!({"op": "scope", "view": view, "which": which}),
            Op::Set { view, l, in_observer } => json!({"op": "set", "view": view, "l": LOCS[*l % LOCS.len()], "in_observer": in_observer}),
            Op::SetUntracked { view, l } => json!({"op": "set_untracked", "view": view, "l": LOCS[*l % LOCS.len()]}),
            Op::WriteWired { sig, l } => json!({"op": "write_wired", "sig": sig, "l": LOCS[*l % LOCS.len()]}),
            Op::MakeReader { view, which } => json!({"op": "make_reader", "view": view, "which": which}),
            Op::Read { reader } => json!({"op": "read", "reader": reader}),
            Op::Get { view } => json!({"op": "get", "view": view}),
            Op::Subscribe { view } => json!({"op": "subscribe", "view": view}),
            Op::SubscribeReader { reader } => json!({"op": "subscribe_reader", "reader": reader}),
            Op::Resolve { ctx, enable_cookie, cookie_name, accept } => json!({"op": "resolve", "ctx": ctx, "enable_cookie": enable_cookie, "cookie_name": cookie_name, "accept": accept}),
            Op::Dispose { ctx } => json!({"op": "dispose", "ctx": ctx}),
            Op::Step { k } => json!({"op": "step", "k": k}),
            Op::Flush => json!({"op": "flush"}),
        }
    }
    pub fn from_json(v: &Value) -> Option<Op> {
        let u = |k: &str| v[k].as_u64().unwrap_or(0) as usize;
        let l = |k: &str| LOCS.iter().position(|x| Some(*x) == v[k].as_str()).unwrap_or(0);
        let name = |k: &str| v[k].as_str().map(String::from);
        Some(match v["op"].as_str()? {
            "create_main" => Op::CreateMain { enable_cookie: v["enable_cookie"].as_bool().unwrap_or(true), cookie_name: name("cookie_name"), via_provider: v["via_provider"].as_bool().unwrap_or(false) },
            "create_sub" => Op::CreateSub { parent: u("parent"), initial: match v["initial"].as_str()? { "none" => 0, "const" => 1, _ => 2 }, init_locale: l("init_locale"), sig: u("sig"), cookie_name: name("cookie_name"), via: match v["via"].as_str() { Some("deprecated_provide") => 1, Some("island_fn") => 2, Some("island_fn_same_owner") => 3, _ => 0 }, in_region: v["in_region"].as_bool().unwrap_or(false) },
            "new_signal" => Op::NewSignal { l: l("l") },
            "scope" => Op::Scope { view: u("view"), which: u("which") },
            "set" => Op::Set { view: u("view"), l: l("l"), in_observer: v["in_observer"].as_bool().unwrap_or(false) },
            "set_untracked" => Op::SetUntracked { view: u("view"), l: l("l") },
            "write_wired" => Op::WriteWired { sig: u("sig"), l: l("l") },
            "make_reader" => Op::MakeReader { view: u("view"), which: u("which") },
            "read" => Op::Read { reader: u("reader") },
            "get" => Op::Get { view: u("view") },
            "subscribe" => Op::Subscribe { view: u("view") },
            "subscribe_reader" => Op::SubscribeReader { reader: u("reader") },
            "resolve" => Op::Resolve { ctx: u("ctx"), enable_cookie: v["enable_cookie"].as_bool().unwrap_or(true), cookie_name: name("cookie_name"), accept: name("accept") },
            "dispose" => Op::Dispose { ctx: u("ctx") },
            "step" => Op::Step { k: u("k") },
            "flush" => Op::Flush,
            _ => return None,
        })
    }
}

#[derive(Debug, Clone)]
pub struct PageLoad {
    /// Cookie header sent with this request; `None` = derive from the jar as a browser would
    pub cookie_header: Option<String>,
    pub accept_language: String,
    /// (axum build only) no getters are injected: the request is an `http::request::Parts` in the reactive context and
    /// Set-Cookie goes to `leptos_axum::ResponseOptions`
    pub default_getters: bool,
    pub ops: Vec<Op>,
}

#[derive(Debug, Clone)]
pub struct Plan {
    pub jar: BTreeMap<String, String>,
    pub loads: Vec<PageLoad>,
    pub policy: Policy,
}

impl Plan {
    pub fn to_json(&self, schedule: &[u64]) -> Value {
        json!({
            "jar": self.jar,
            "policy": self.policy.name(),
            "schedule": schedule,
            "loads": self.loads.iter().map(|l| json!({"cookie_header": l.cookie_header, "accept_language": l.accept_language, "default_getters": l.default_getters, "ops": l.ops.iter().map(|o| o.to_json()).collect::<Vec<_>>()})).collect::<Vec<_>>(),
        })
    }
    pub fn from_json(v: &Value) -> Option<Plan> {
        let jar = v["jar"].as_object().map(|m| m.iter().map(|(k, v)| (k.clone(), v.as_str().unwrap_or("").to_string())).collect()).unwrap_or_default();
        let loads = v["loads"]
            .as_array()?
            .iter()
            .map(|l| PageLoad {
                cookie_header: l["cookie_header"].as_str().map(String::from),
                accept_language: l["accept_language"].as_str().unwrap_or("").to_string(),
                default_getters: l["default_getters"].as_bool().unwrap_or(false),
                ops: l["ops"].as_array().map(|a| a.iter().filter_map(Op::from_json).collect()).unwrap_or_default(),
            })
            .collect();
        let schedule: Vec<u64> = v["schedule"].as_array().map(|a| a.iter().filter_map(|x| x.as_u64()).collect()).unwrap_or_default();
        Some(Plan { jar, loads, policy: Policy::Recorded(schedule) })
    }
}

// ------------------------------------------------------------------ generation (seeded, swarm)

const ACCEPT_POOL: &[&str] = &[
    "", "fr", "de", "en", "pt-BR", "fr-CA", "fr-CA,fr;q=0.9,en;q=0.8", "es,fr;q=0.9", "es,it", "de-AT,de;q=0.9", "pt,en;q=0.5",
    "*", "es,*;q=0.1", "zz-ZZ,pt-BR;q=0.8", "en-US,en;q=0.9", "fr-FR", "not a language,de", ";q=1,fr", "de;q=0.9;x=y",
    "pt-br", "zh", "zh-Hant", "zh-Hant-TW", "zh-Hant-HK,zh;q=0.8", "zh-CN", "zh-Hans-CN,en;q=0.5", "es,zh-Hant-TW;q=0.7", "fr-CA-x-private", "ar", "ar-EG,en;q=0.5", "he,ar;q=0.3",
    "es-ES,es,pt-PT,pt,it,nl,sv,da,pl,cs,fr-FR,fr,en", "es,it,nl,sv,da,pl,cs,fi,nb,hu,ro,de-AT;q=0.1",
    "de-1996,fr", "de-CH-1901", "ca-ES-valencia,fr", "fr-CA-fonipa", "zh-Hant-TW-x-private,de",
];
// optional whitespace of RFC 9110 (`OWS = *( SP / HTAB )`) on either side of an element, of its parameters and at both ends of the header
const ACCEPT_POOL_OWS: &[&str] = &[
    "es, fr", "fr-CA, fr;q=0.9, en;q=0.8", "it , de", "es,\tpt-BR", "fr\t;q=0.9, de;q=0.8", "de\t", "es\t,\tfr\t", " \tpt-BR \t;q=1", "it \t, \t de \t ,fr", "\tzh-Hant-TW\t,\ten",
];
// "pt-BR" is the canonical spelling of the configured `pt-br`: not a configured locale name
const COOKIE_VALUES: &[&str] = &["en", "fr", "fr-CA", "de", "pt-br", "zh", "zh-Hant", "ar", "pt-BR", "zh-hant", " fr", "de ", "xx", "", "fr_CA", "en-", "french", "e", "1"];
// (the default name too: a sub-context or a `resolve_locale` call may be told to use the main context's cookie)
const COOKIE_NAMES: &[&str] = &["sub_locale", "other_pref", "i18n_pref_locale2", "i18n_pref_locale"];

pub fn generate(rng: &mut Rng, ows: bool) -> Plan {
    let mut jar = BTreeMap::new();
    if rng.chance(1, 2) {
        jar.insert(DEFAULT_COOKIE.to_string(), rng.pick(COOKIE_VALUES).to_string());
    }
    if rng.chance(1, 3) {
        jar.insert(rng.pick(COOKIE_NAMES).to_string(), rng.pick(COOKIE_VALUES).to_string());
    }
    if rng.chance(1, 4) {
        // unrelated cookies around, incl. names that only share a prefix/suffix with the configured one
        jar.insert("session".into(), "abc123".into());
        jar.insert("xi18n_pref_locale".into(), "de".into());
    }
    let n_loads = 1 + rng.below(3);
    let enabled_ops: Vec<u8> = (0..14u8).filter(|_| rng.chance(3, 4)).collect();
    let mut loads = vec![];
    for _ in 0..n_loads {
        let accept = if ows && rng.chance(1, 3) { rng.pick(ACCEPT_POOL_OWS).to_string() } else { rng.pick(ACCEPT_POOL).to_string() };
        // the cookie header is normally what a browser sends for the jar; sometimes corrupted in transit
        let cookie_header = if rng.chance(1, 6) {
            Some(match rng.below(4) {
                0 => String::new(),
                1 => format!("{}={}", DEFAULT_COOKIE, rng.pick(COOKIE_VALUES)),
                2 => format!("session=1; {}={}; theme=dark", DEFAULT_COOKIE, rng.pick(COOKIE_VALUES)),
                _ => format!("{}x={}", DEFAULT_COOKIE, rng.pick(COOKIE_VALUES)),
            })
        } else {
            None
        };
        let cap = if rng.chance(1, 4) { 40 } else { 14 };
        let n_ops = 2 + rng.below(cap);
        let mut ops = vec![];
        // most page loads start with a main context; some start with a parent-less sub-context
        if rng.chance(9, 10) {
            ops.push(Op::CreateMain { enable_cookie: rng.chance(5, 6), cookie_name: if rng.chance(1, 5) { Some(rng.pick(COOKIE_NAMES).to_string()) } else { None }, via_provider: rng.chance(1, 2) });
        }
        for _ in 0..n_ops {
            let pick = if enabled_ops.is_empty() { 4 } else { *rng.pick(&enabled_ops) };
            let op = match pick {
                0 => Op::CreateSub {
                    parent: rng.below(4),
                    initial: rng.below(3) as u8,
                    init_locale: rng.below(LOCS.len()),
                    sig: rng.below(3),
                    cookie_name: if rng.chance(1, 3) { Some(rng.pick(COOKIE_NAMES).to_string()) } else { None },
                    via: if rng.chance(1, 4) { 1 + rng.below(3) as u8 } else { 0 },
                    in_region: rng.chance(1, 5),
                },
                1 => Op::NewSignal { l: rng.below(LOCS.len()) },
                2 => Op::Scope { view: rng.below(8), which: rng.below(8) },
                3 | 4 => Op::Set { view: rng.below(8), l: rng.below(LOCS.len()), in_observer: rng.chance(1, 5) },
                5 => Op::SetUntracked { view: rng.below(8), l: rng.below(LOCS.len()) },
                6 => Op::WriteWired { sig: rng.below(3), l: rng.below(LOCS.len()) },
                7 => Op::MakeReader { view: rng.below(8), which: rng.below(16) },
                8 => {
                    if rng.chance(1, 2) {
                        Op::Resolve { ctx: rng.below(4), enable_cookie: rng.chance(4, 5), cookie_name: if rng.chance(1, 3) { Some(rng.pick(COOKIE_NAMES).to_string()) } else { None }, accept: if rng.chance(1, 3) { Some(rng.pick(ACCEPT_POOL).to_string()) } else { None } }
                    } else {
                        Op::Read { reader: rng.below(8) }
                    }
                }
                9 => {
                    if rng.chance(1, 2) {
                        Op::SubscribeReader { reader: rng.below(8) }
                    } else {
                        Op::Get { view: rng.below(8) }
                    }
                }
                10 => Op::Subscribe { view: rng.below(8) },
                11 => Op::Dispose { ctx: rng.below(4) },
                12 => Op::Step { k: 1 + rng.below(3) },
                _ => Op::Flush,
            };
            ops.push(op);
            // short patterns in which the same locale arrives twice by different routes (the second arrival must still notify)
            if EFFECTS && rng.chance(1, 10) {
                let (v, l, l2) = (rng.below(8), rng.below(LOCS.len()), rng.below(LOCS.len()));
                match rng.below(3) {
                    0 => ops.extend([Op::SetUntracked { view: v, l }, Op::WriteWired { sig: rng.below(3), l }, Op::Flush]),
                    1 => ops.extend([Op::Set { view: v, l, in_observer: false }, Op::SetUntracked { view: v, l: l2 }, Op::Set { view: v, l: l2, in_observer: rng.chance(1, 3) }, Op::Flush]),
                    _ => ops.extend([Op::WriteWired { sig: rng.below(3), l }, Op::Flush, Op::SetUntracked { view: v, l: l2 }, Op::WriteWired { sig: rng.below(3), l: l2 }, Op::Flush]),
                }
            }
        }
        loads.push(PageLoad { cookie_header, accept_language: accept, default_getters: AXUM && rng.chance(2, 3), ops });
    }
    let policy = match rng.below(6) {
        0 => Policy::Fifo,
        1 => Policy::Lifo,
        2 => Policy::Pct { seed: rng.next_u64(), change_at: (0..rng.below(4)).map(|_| rng.below(60) as u64).collect() },
        _ => Policy::Random,
    };
    Plan { jar, loads, policy }
}

// ------------------------------------------------------------------ reference model

/// RFC 9110 list split of Accept-Language: elements separated by commas with optional whitespace, parameters dropped.
fn split_accept(header: &str) -> Vec<String> {
    header.split(',').map(|e| e.split(';').next().unwrap_or("").trim_matches(|c| c == ' ' || c == '\t').to_string()).filter(|e| !e.is_empty()).collect()
}

pub fn dump_best_match() {
    for h in ACCEPT_POOL.iter().chain(ACCEPT_POOL_OWS) {
        println!("{h:?} -> {}", LOCS[resolve_header(h)]);
    }
}

fn resolve_header(accept: &str) -> usize {
    // headers with a hand-audited best match are judged against it; for the rest the matching is the library's own
    // (C12 is not re-judged here)
    if let Some(l) = crate::common::audited_best_match(accept) {
        return l;
    }
    let list = split_accept(accept);
    loc_index(<Locale as leptos_i18n::Locale>::find_locale(&list))
}

/// Cookie header -> value of cookie `name` (exact name; last occurrence wins, as the cookie jar does).
fn cookie_value(header: &str, name: &str) -> Option<String> {
    let mut found = None;
    for part in header.split(';') {
        if let Some((n, v)) = part.split_once('=') {
            if n.trim() == name {
                found = Some(v.trim().to_string());
            }
        }
    }
    found
}

fn cookie_locale(header: &str, name: &str) -> Option<usize> {
    let v = cookie_value(header, name)?;
    LOCS.iter().position(|l| *l == v.trim())
}

struct CtxM {
    alive: bool,
    locale: usize,
    parent: Option<usize>,
    owner: Owner,
    is_sub: bool,
    cookie_name: Option<String>,
    history: Vec<usize>,
    wired: Option<usize>,
    memo_val: usize,
    pending: Option<usize>,
    /// while a wired write is pending: could the effect already have run (any task polled since the write)?
    ran_possible: bool,
    /// values the context may legitimately show once the pending effect has certainly run (quiescence)
    cands: Vec<usize>,
    last_change_tracked: bool,
}

struct ViewM {
    ctx: usize,
    h: ViewH,
}

struct ReaderM {
    ctx: usize,
    r: Reader,
}

struct SubM {
    ctx: usize,
    log: Arc<Mutex<Vec<usize>>>,
}

struct ReaderSubM {
    reader: usize,
    ctx: usize,
    log: Arc<Mutex<Vec<String>>>,
}

struct SigM {
    sig: RwSignal<Locale>,
    val: usize,
}

pub use crate::common::Violation;

#[derive(Default)]
pub struct Stats {
    pub ops: u64,
    pub skipped_ops: u64,
    pub polls: u64,
    pub tasks_spawned: u64,
    pub choice_points: u64,
    pub probes: BTreeMap<String, u64>,
    pub model_states: Vec<u64>,
}

impl Stats {
    fn probe(&mut self, k: &str) {
        *self.probes.entry(k.to_string()).or_default() += 1;
    }
}

pub struct Outcome {
    pub violations: Vec<Violation>,
    pub stats: Stats,
    pub schedule: Vec<u64>,
    pub final_jar: BTreeMap<String, String>,
    pub executed_loads: Vec<Value>,
}

pub use crate::common::{install_panic_hook, last_panic};

fn jar_header(jar: &BTreeMap<String, String>) -> String {
    jar.iter().map(|(k, v)| format!("{k}={v}")).collect::<Vec<_>>().join("; ")
}

struct Page {
    ctxs: Vec<CtxM>,
    views: Vec<ViewM>,
    readers: Vec<ReaderM>,
    subs: Vec<SubM>,
    reader_subs: Vec<ReaderSubM>,
    sigs: Vec<SigM>,
    emitted: Arc<Mutex<Vec<(String, String)>>>,
    cookie_header: String,
    accept: String,
    root: Owner,
    /// no getters injected (axum build): the library's default getters find the request in the reactive context
    default_getters: bool,
    /// reactive regions and island views created by the page: kept alive until the page is disposed
    keep: Vec<Box<dyn std::any::Any>>,
    region_builds: Vec<(usize, Arc<std::sync::atomic::AtomicUsize>)>,
    /// parent context -> the owner standing for the component body its sibling providers are written in
    comp_owners: BTreeMap<usize, Owner>,
}

impl Page {
    fn live_ctxs(&self) -> Vec<usize> {
        (0..self.ctxs.len()).filter(|i| self.ctxs[*i].alive).collect()
    }
    fn live_views(&self) -> Vec<usize> {
        (0..self.views.len()).filter(|i| self.ctxs[self.views[*i].ctx].alive).collect()
    }
    fn live_readers(&self) -> Vec<usize> {
        (0..self.readers.len()).filter(|i| self.ctxs[self.readers[*i].ctx].alive).collect()
    }
    fn cookie_opts(&self) -> CookieOptions<Locale> {
        if self.default_getters {
            return CookieOptions::default();
        }
        let header = self.cookie_header.clone();
        let emitted = self.emitted.clone();
        CookieOptions::<Locale>::default().ssr_cookies_header_getter(move || Some(header.clone())).ssr_set_cookie(move |c| {
            emitted.lock().unwrap().push((c.name().to_string(), c.value().to_string()));
        })
    }
    fn locale_opts(&self) -> UseLocalesOptions {
        if self.default_getters {
            return UseLocalesOptions::default();
        }
        let accept = self.accept.clone();
        UseLocalesOptions::default().ssr_lang_header_getter(move || Some(accept.clone()))
    }
    fn descendants(&self, c: usize) -> Vec<usize> {
        let mut out = vec![c];
        let mut i = 0;
        while i < out.len() {
            let p = out[i];
            for (j, x) in self.ctxs.iter().enumerate() {
                if x.parent == Some(p) && !out.contains(&j) {
                    out.push(j);
                }
            }
            i += 1;
        }
        out
    }
}

fn pick_mod(list: &[usize], i: usize) -> Option<usize> {
    if list.is_empty() {
        None
    } else {
        Some(list[i % list.len()])
    }
}

fn guarded<T>(f: impl FnOnce() -> T) -> Result<T, String> {
    std::panic::catch_unwind(std::panic::AssertUnwindSafe(f)).map_err(|_| last_panic())
}

/// Execute the plan; `rng` is used only by the scheduler policy.
pub fn execute(plan: &Plan, rng: &mut Rng) -> Outcome {
    let mut violations: Vec<Violation> = vec![];
    let mut stats = Stats::default();
    let mut jar = plan.jar.clone();
    let mut sched = Scheduler::new(plan.policy.clone());
    let mut executed_loads = vec![];

    for (li, load) in plan.loads.iter().enumerate() {
        exec::reset();
        exec::set_label(&format!("load{li}:setup"));
        let root = Owner::new();
        let header = load.cookie_header.clone().unwrap_or_else(|| jar_header(&jar));
        let mut page = Page {
            ctxs: vec![],
            views: vec![],
            readers: vec![],
            subs: vec![],
            reader_subs: vec![],
            sigs: vec![],
            emitted: Arc::new(Mutex::new(vec![])),
            cookie_header: header.clone(),
            accept: load.accept_language.clone(),
            root: root.clone(),
            default_getters: AXUM && load.default_getters,
            keep: vec![],
            region_builds: vec![],
            comp_owners: BTreeMap::new(),
        };
        #[cfg(feature = "world_ax")]
        let response_options = leptos_axum::ResponseOptions::default();
        #[cfg(feature = "world_ax")]
        if page.default_getters {
            // what leptos_axum's handlers provide before rendering the app
            let mut builder = http::Request::builder().uri("/");
            // a browser sends no Cookie header at all for an empty jar
            if !page.cookie_header.is_empty() {
                builder = builder.header(http::header::COOKIE, page.cookie_header.as_str());
            }
            if !page.accept.is_empty() {
                builder = builder.header(http::header::ACCEPT_LANGUAGE, page.accept.as_str());
            }
            match builder.body(()) {
                Ok(req) => {
                    let parts = req.into_parts().0;
                    let ro = response_options.clone();
                    root.with(|| {
                        provide_context(parts);
                        provide_context(ro);
                    });
                    stats.probe("page_load_with_default_getters");
                }
                // a header value http refuses (control characters): fall back to injected getters for this load
                Err(_) => page.default_getters = false,
            }
        }
        executed_loads.push(json!({"cookie_header": header, "accept_language": load.accept_language}));
        let mut abort_load = false;
        for (oi, op) in load.ops.iter().enumerate() {
            if abort_load {
                break;
            }
            exec::set_label(&format!("load{li}:op{oi}:{}", op.to_json()["op"].as_str().unwrap_or("")));
            stats.ops += 1;
            let mut executed = true;
            match op {
                Op::CreateMain { enable_cookie, cookie_name, via_provider } => {
                    if !page.ctxs.is_empty() {
                        executed = false; // one main context per page, created first
                    } else {
                        let name = cookie_name.clone().unwrap_or_else(|| DEFAULT_COOKIE.to_string());
                        let mut opts = I18nContextOptions::<Locale>::default().enable_cookie(*enable_cookie).cookie_options(page.cookie_opts()).ssr_lang_header_getter(page.locale_opts());
                        if let Some(n) = cookie_name {
                            opts = opts.cookie_name(n.clone());
                        }
                        let r = guarded(|| {
                            root.with(|| {
                                if *via_provider {
                                    leptos_i18n::context::provide_i18n_context_with_options_inner(opts)
                                } else {
                                    let ctx = init_i18n_context_with_options(opts);
                                    provide_context(ctx);
                                    ctx
                                }
                            })
                        });
                        match r {
                            Err(msg) => {
                                violations.push(Violation { property: "C15", invariant: "no_panic", signature: "creating the main context panicked".into(), detail: msg });
                                abort_load = true;
                            }
                            Ok(ctx) => {
                                // ---- C15: cookie (if enabled and valid) > Accept-Language match > default
                                let from_cookie = if *enable_cookie && COOKIES { cookie_locale(&page.cookie_header, &name) } else { None };
                                let (want, src) = match from_cookie {
                                    Some(l) => (l, "cookie"),
                                    None => (resolve_header(&page.accept), "accept-language/default"),
                                };
                                let got = loc_index(ctx.get_locale_untracked());
                                stats.probe(&format!("main_resolved_from_{src}"));
                                // the documented equivalent: resolve_locale_with_options(same options) == init(..).get_locale_untracked()
                                let mut opts2 = I18nContextOptions::<Locale>::default().enable_cookie(*enable_cookie).cookie_options(page.cookie_opts()).ssr_lang_header_getter(page.locale_opts());
                                if let Some(n) = cookie_name {
                                    opts2 = opts2.cookie_name(n.clone());
                                }
                                match guarded(|| root.with(|| leptos_i18n::locale::resolve_locale_with_options(opts2))) {
                                    Ok(l) if loc_index(l) == want => stats.probe("resolve_locale_api_checked"),
                                    Ok(l) => violations.push(Violation {
                                        property: "C15",
                                        invariant: "resolve_locale_api",
                                        signature: format!("resolve_locale_with_options: expected the locale from {src}"),
                                        detail: format!("Cookie: {:?} (name {name:?}, enabled {enable_cookie}), Accept-Language: {:?} -> expected {}, got {}", page.cookie_header, page.accept, LOCS[want], LOCS[loc_index(l)]),
                                    }),
                                    Err(msg) => violations.push(Violation { property: "C15", invariant: "no_panic", signature: "resolve_locale_with_options panicked".into(), detail: msg }),
                                }
                                if cookie_value(&page.cookie_header, &name).is_some() && from_cookie.is_none() && *enable_cookie {
                                    stats.probe("invalid_cookie_value_presented");
                                }
                                if got != want {
                                    violations.push(Violation {
                                        property: "C15",
                                        invariant: "initial_resolution",
                                        signature: format!("main context: expected the locale from {src}"),
                                        detail: format!("Cookie: {:?} (name {name:?}, enabled {enable_cookie}), Accept-Language: {:?} -> expected {}, got {}", page.cookie_header, page.accept, LOCS[want], LOCS[got]),
                                    });
                                }
                                page.ctxs.push(CtxM {
                                    alive: true, locale: got, parent: None, owner: root.clone(), is_sub: false,
                                    cookie_name: if *enable_cookie && COOKIES { Some(name) } else { None }, history: vec![got], wired: None, memo_val: got,
                                    pending: None, ran_possible: false, cands: vec![], last_change_tracked: true,
                                });
                                page.views.push(ViewM { ctx: 0, h: fixture::view_root(ctx) });
                            }
                        }
                    }
                }
                Op::CreateSub { parent, initial, init_locale, sig, cookie_name, via, in_region } => {
                    let live = page.live_ctxs();
                    let parent_idx = pick_mod(&live, *parent);
                    let wired_sig = if *initial == 2 { pick_mod(&(0..page.sigs.len()).collect::<Vec<_>>(), *sig) } else { None };
                    // the deprecated function and the island provider take no getters: they only see the request through the
                    // default getters, so without those they are only used below a parent (no header resolution involved)
                    let mut via = *via;
                    if via != 0 && parent_idx.is_none() && !page.default_getters {
                        via = 0;
                    }
                    if via >= 2 && *initial == 2 {
                        via = 0; // the island provider takes a plain locale, not a signal
                    }
                    let in_region = if via == 3 { &false } else { in_region };
                    // the deprecated function takes no cookie name
                    let cookie_name: Option<String> = if via == 1 { None } else { cookie_name.clone() };
                    let cookie_name = &cookie_name;
                    // cookies the sub-context can see: through injected getters (via 0), or through the default getters
                    let cookie_visible = via == 0 || page.default_getters;
                    let in_region = *in_region && EFFECTS;
                    if *initial == 2 && wired_sig.is_none() {
                        executed = false;
                    } else if parent_idx.is_none() && !page.ctxs.is_empty() {
                        executed = false; // every context of the page is disposed
                    } else {
                        let owner = match parent_idx {
                            // one "component body" per parent: every provider written in it is called in this same owner
                            Some(p) if via == 3 => {
                                let parent_owner = page.ctxs[p].owner.clone();
                                page.comp_owners.entry(p).or_insert_with(|| parent_owner.child()).clone()
                            }
                            Some(p) => page.ctxs[p].owner.child(),
                            None => root.clone(), // parent-less sub-context used as the page's main context
                        };
                        let wired_rw = wired_sig.map(|w| page.sigs[w].sig);
                        let (initial_kind, init_l) = (*initial, loc(*init_locale));
                        let cname = cookie_name.clone();
                        // where the created context and the owner it is provided in are published (a region may publish again)
                        let cell: Arc<Mutex<Option<(I18nContext<Locale>, Owner)>>> = Arc::new(Mutex::new(None));
                        let builds = Arc::new(std::sync::atomic::AtomicUsize::new(0));
                        let mut kept: Vec<Box<dyn std::any::Any>> = vec![];
                        let make = {
                            let cell = cell.clone();
                            let builds = builds.clone();
                            let default_getters = page.default_getters;
                            let (header, accept, emitted) = (page.cookie_header.clone(), page.accept.clone(), page.emitted.clone());
                            move || -> Option<Box<dyn std::any::Any>> {
                                builds.fetch_add(1, std::sync::atomic::Ordering::SeqCst);
                                // signals are arena items: create them under the owner (sandboxed arenas)
                                let init_sig: Option<Signal<Locale>> = match initial_kind {
                                    0 => None,
                                    1 => Some(Signal::derive(move || init_l)),
                                    _ => {
                                        let s = wired_rw.unwrap();
                                        Some(Signal::derive(move || s.get()))
                                    }
                                };
                                match via {
                                    0 => {
                                        let (copts, lopts) = if default_getters {
                                            (CookieOptions::<Locale>::default(), UseLocalesOptions::default())
                                        } else {
                                            let (header, accept, emitted) = (header.clone(), accept.clone(), emitted.clone());
                                            (
                                                CookieOptions::<Locale>::default().ssr_cookies_header_getter(move || Some(header.clone())).ssr_set_cookie(move |c| {
                                                    emitted.lock().unwrap().push((c.name().to_string(), c.value().to_string()));
                                                }),
                                                UseLocalesOptions::default().ssr_lang_header_getter(move || Some(accept.clone())),
                                            )
                                        };
                                        let ctx = init_i18n_subcontext_with_options::<Locale>(init_sig, cname.clone().map(Into::into), Some(copts), Some(lopts));
                                        provide_context(ctx);
                                        *cell.lock().unwrap() = Some((ctx, Owner::current().expect("owner")));
                                        None
                                    }
                                    1 => {
                                        #[allow(deprecated)]
                                        let ctx = leptos_i18n::context::provide_i18n_subcontext::<Locale>(init_sig);
                                        *cell.lock().unwrap() = Some((ctx, Owner::current().expect("owner")));
                                        None
                                    }
                                    _ => {
                                        let cell = cell.clone();
                                        let children: leptos::children::Children = Box::new(move || {
                                            // the island's children look their context up, as components do
                                            let ctx = leptos_i18n::context::use_i18n_context::<Locale>();
                                            *cell.lock().unwrap() = Some((ctx, Owner::current().expect("owner")));
                                            ().into_any()
                                        });
                                        let view = leptos_i18n::context::i18n_sub_context_provider_island::<Locale>(children, if initial_kind == 1 { Some(init_l) } else { None }, cname.clone().map(Into::into));
                                        Some(Box::new(view.into_any()) as Box<dyn std::any::Any>)
                                    }
                                }
                            }
                        };
                        let r = guarded(|| {
                            owner.with(|| {
                                if in_region {
                                    let eff = RenderEffect::new(move |_| {
                                        // a region that is built again drops what it built before
                                        make()
                                    });
                                    kept.push(Box::new(eff));
                                } else if let Some(v) = make() {
                                    kept.push(v);
                                }
                            });
                            cell.lock().unwrap().clone()
                        });
                        page.keep.append(&mut kept);
                        // the owner the context's signals live in (the context may be provided in a child of it)
                        page.keep.push(Box::new(owner.clone()));
                        let r = match r {
                            Ok(Some(x)) => Ok(x),
                            Ok(None) => Err("the sub-context was not created (the region did not run)".to_string()),
                            Err(e) => Err(e),
                        };
                        match r {
                            Err(msg) => {
                                violations.push(Violation { property: "C15", invariant: "no_panic", signature: "creating a sub-context panicked".into(), detail: msg });
                                abort_load = true;
                            }
                            Ok((ctx, provided_in)) => {
                                stats.probe(match via { 0 => "sub_via_init", 1 => "sub_via_deprecated_provide", 3 => "sub_via_island_fn_same_owner", _ => "sub_via_island_fn" });
                                // ---- C15: cookie > explicit initial > parent's current locale > (no parent) header/default
                                let from_cookie = cookie_name.as_ref().filter(|_| COOKIES && cookie_visible).and_then(|n| cookie_locale(&page.cookie_header, n));
                                let from_init = match initial {
                                    0 => None,
                                    1 => Some(*init_locale % LOCS.len()),
                                    _ => Some(page.sigs[wired_sig.unwrap()].val),
                                };
                                let from_parent = parent_idx.map(|p| page.ctxs[p].locale);
                                let (want, src) = if let Some(l) = from_cookie {
                                    (l, "cookie")
                                } else if let Some(l) = from_init {
                                    (l, "explicit initial locale")
                                } else if let Some(l) = from_parent {
                                    (l, "parent context")
                                } else {
                                    (resolve_header(&page.accept), "accept-language/default (no parent)")
                                };
                                // a parent whose wired effect is still pending may legitimately show either value
                                let parent_ambiguous = parent_idx.is_some_and(|p| page.ctxs[p].pending.is_some()) && from_cookie.is_none() && from_init.is_none();
                                let got = loc_index(ctx.get_locale_untracked());
                                stats.probe(&format!("sub_resolved_from_{}", src.split(' ').next().unwrap_or("")));
                                if got != want && !parent_ambiguous {
                                    violations.push(Violation {
                                        property: "C15",
                                        invariant: "initial_resolution",
                                        signature: format!("sub-context: expected the locale from {src}"),
                                        detail: format!(
                                            "Cookie: {:?} (name {cookie_name:?}), initial {:?}, parent {:?}, Accept-Language {:?} -> expected {}, got {}",
                                            page.cookie_header, from_init.map(|l| LOCS[l]), from_parent.map(|l| LOCS[l]), page.accept, LOCS[want], LOCS[got]
                                        ),
                                    });
                                }
                                let id = page.ctxs.len();
                                page.ctxs.push(CtxM {
                                    alive: true, locale: got, parent: parent_idx, owner: provided_in, is_sub: true, cookie_name: cookie_name.clone().filter(|_| COOKIES), history: vec![got],
                                    wired: wired_sig, memo_val: got, pending: None, ran_possible: false, cands: vec![], last_change_tracked: true,
                                });
                                if in_region {
                                    // the application reaches the context through the region: whatever it currently provides
                                    let cell2 = cell.clone();
                                    page.views.push(ViewM { ctx: id, h: fixture::view_cell(std::rc::Rc::new(move || cell2.lock().unwrap().as_ref().expect("region built").0)) });
                                    page.region_builds.push((id, builds.clone()));
                                    stats.probe("sub_context_created_in_reactive_region");
                                } else {
                                    page.views.push(ViewM { ctx: id, h: fixture::view_root(ctx) });
                                }
                                stats.probe("sub_context_created");
                                if !exec::ready_ids().is_empty() {
                                    stats.probe("sub_context_created_while_effects_pending");
                                }
                            }
                        }
                    }
                }
                Op::NewSignal { l } => {
                    if page.sigs.len() >= 3 {
                        executed = false;
                    } else {
                        let l = *l % LOCS.len();
                        let sig = root.with(|| RwSignal::new(loc(l)));
                        page.sigs.push(SigM { sig, val: l });
                    }
                }
                Op::Scope { view, which } => match pick_mod(&page.live_views(), *view) {
                    Some(v) if page.views[v].h.n_scopes > 0 && page.views.len() < 12 => {
                        let ctx = page.views[v].ctx;
                        // inside the owner that provides this context (`use_i18n_scoped!` looks it up)
                        let h = page.ctxs[ctx].owner.with(|| (page.views[v].h.make_scope)(*which));
                        stats.probe(&format!("scoped_view_{}", h.kind));
                        page.views.push(ViewM { ctx, h });
                    }
                    _ => executed = false,
                },
                Op::Set { view, l, .. } | Op::SetUntracked { view, l } => match pick_mod(&page.live_views(), *view) {
                    Some(v) => {
                        let tracked = matches!(op, Op::Set { .. });
                        let in_observer = EFFECTS && matches!(op, Op::Set { in_observer: true, .. });
                        let l = *l % LOCS.len();
                        let c = page.views[v].ctx;
                        let mut kept: Option<Box<dyn std::any::Any>> = None;
                        let r = guarded(|| {
                            if in_observer {
                                // the body runs at once (and never again: it reads nothing), with itself as the current observer
                                let set = page.views[v].h.set.clone();
                                let owner = page.ctxs[c].owner.clone();
                                owner.with(|| kept = Some(Box::new(RenderEffect::new(move |_| set(loc(l))))));
                            } else if tracked {
                                (page.views[v].h.set)(loc(l))
                            } else {
                                (page.views[v].h.set_untracked)(loc(l))
                            }
                        });
                        if let Some(k) = kept {
                            page.keep.push(k);
                            stats.probe("set_inside_an_observer");
                        }
                        if let Err(msg) = r {
                            violations.push(Violation { property: "C16", invariant: "no_panic", signature: "set_locale panicked on a live context".into(), detail: msg });
                        }
                        let m = &mut page.ctxs[c];
                        m.locale = l;
                        m.history.push(l);
                        m.last_change_tracked = tracked;
                        if let Some(x) = m.pending {
                            // if nothing ran since the write the effect is still to come and will override this set;
                            // otherwise it may already have run, and then this set is final
                            m.cands = if m.ran_possible { vec![x, l] } else { vec![x] };
                        }
                        if page.views[v].h.kind != "root" {
                            stats.probe("set_through_scoped_view");
                        }
                        if !exec::ready_ids().is_empty() {
                            stats.probe("set_while_effects_pending");
                        }
                    }
                    None => executed = false,
                },
                Op::WriteWired { sig, l } => {
                    let all: Vec<usize> = (0..page.sigs.len()).collect();
                    match pick_mod(&all, *sig) {
                        Some(s) if !page.ctxs.iter().any(|c| c.alive && c.wired == Some(s) && c.pending.is_some()) => {
                            let l = *l % LOCS.len();
                            page.sigs[s].sig.set(loc(l));
                            page.sigs[s].val = l;
                            if EFFECTS {
                                for c in page.ctxs.iter_mut().filter(|c| c.alive && c.wired == Some(s)) {
                                    // the initial-locale memo re-evaluates to the signal value; the effect only fires if that differs
                                    if l != c.memo_val {
                                        c.pending = Some(l);
                                        c.ran_possible = false;
                                        c.cands = vec![l];
                                        stats.probe("wired_write_pending_effect");
                                    }
                                }
                            }
                        }
                        _ => executed = false,
                    }
                }
                Op::MakeReader { view, which } => match pick_mod(&page.live_views(), *view) {
                    Some(v) if page.readers.len() < 16 => {
                        let r = (page.views[v].h.make_reader)(*which);
                        page.readers.push(ReaderM { ctx: page.views[v].ctx, r });
                    }
                    _ => executed = false,
                },
                Op::Read { .. } | Op::Get { .. } => { /* every live reader and view is read after each operation below */ }
                Op::Subscribe { view } => match pick_mod(&page.live_views(), *view) {
                    Some(v) if EFFECTS && page.subs.len() < 6 => {
                        let c = page.views[v].ctx;
                        let log = Arc::new(Mutex::new(vec![]));
                        let log2 = log.clone();
                        // subscribe through the (possibly scoped) view's tracked getter, inside the context's owner
                        let getter = page.views[v].h.get.clone();
                        let owner = page.ctxs[c].owner.clone();
                        owner.with(|| {
                            Effect::new(move |_| {
                                let l = getter();
                                log2.lock().unwrap().push(loc_index(l));
                            });
                        });
                        page.subs.push(SubM { ctx: c, log });
                    }
                    _ => executed = false,
                },
                Op::SubscribeReader { reader } => match pick_mod(&page.live_readers(), *reader) {
                    Some(r) if EFFECTS && page.reader_subs.len() < 6 => {
                        // a reactive computation built around an accessor created earlier
                        let c = page.readers[r].ctx;
                        let read = page.readers[r].r.read.clone();
                        let log = Arc::new(Mutex::new(vec![]));
                        let log2 = log.clone();
                        let owner = page.ctxs[c].owner.clone();
                        owner.with(|| {
                            Effect::new(move |_| {
                                let text = read();
                                log2.lock().unwrap().push(text);
                            });
                        });
                        page.reader_subs.push(ReaderSubM { reader: r, ctx: c, log });
                        stats.probe(if page.readers[r].r.tracked { "reactive_computation_around_tracked_accessor" } else { "reactive_computation_around_untracked_accessor" });
                    }
                    _ => executed = false,
                },
                Op::Resolve { ctx, enable_cookie, cookie_name, accept } => {
                    // documented as equivalent to `init_i18n_context().get_locale_untracked()` for the same options:
                    // cookie (if enabled and valid) > Accept-Language > default, whatever contexts exist around the call
                    let owner = pick_mod(&page.live_ctxs(), *ctx).map(|c| page.ctxs[c].owner.clone()).unwrap_or_else(|| root.clone());
                    let name = cookie_name.clone().unwrap_or_else(|| DEFAULT_COOKIE.to_string());
                    // its own header getter, when the call is fed from another source (only with injected getters)
                    let accept = accept.clone().filter(|_| !page.default_getters);
                    let lopts = match &accept {
                        Some(a) => {
                            let a = a.clone();
                            stats.probe("resolve_with_its_own_header_getter");
                            UseLocalesOptions::default().ssr_lang_header_getter(move || Some(a.clone()))
                        }
                        None => page.locale_opts(),
                    };
                    let header = accept.clone().unwrap_or_else(|| page.accept.clone());
                    let mut opts = I18nContextOptions::<Locale>::default().enable_cookie(*enable_cookie).cookie_options(page.cookie_opts()).ssr_lang_header_getter(lopts);
                    if let Some(n) = cookie_name {
                        opts = opts.cookie_name(n.clone());
                    }
                    let from_cookie = if *enable_cookie && COOKIES { cookie_locale(&page.cookie_header, &name) } else { None };
                    let (want, src) = match from_cookie {
                        Some(l) => (l, "cookie"),
                        None => (resolve_header(&header), "accept-language/default"),
                    };
                    match guarded(|| owner.with(|| leptos_i18n::locale::resolve_locale_with_options(opts))) {
                        Ok(l) if loc_index(l) == want => stats.probe("resolve_locale_below_contexts_checked"),
                        Ok(l) => violations.push(Violation {
                            property: "C15",
                            invariant: "resolve_locale_api",
                            signature: format!("resolve_locale_with_options below existing contexts: expected the locale from {src}"),
                            detail: format!("Cookie: {:?} (name {name:?}, enabled {enable_cookie}), Accept-Language: {:?} -> expected {}, got {}", page.cookie_header, page.accept, LOCS[want], LOCS[loc_index(l)]),
                        }),
                        Err(msg) => violations.push(Violation { property: "C15", invariant: "no_panic", signature: "resolve_locale_with_options panicked".into(), detail: msg }),
                    }
                }
                Op::Dispose { ctx } => {
                    let cands: Vec<usize> = page.live_ctxs().into_iter().filter(|c| page.ctxs[*c].is_sub && page.ctxs[*c].parent.is_some()).collect();
                    match pick_mod(&cands, *ctx) {
                        Some(c) => {
                            let r = guarded(|| page.ctxs[c].owner.cleanup());
                            if let Err(msg) = r {
                                violations.push(Violation { property: "C16", invariant: "no_panic", signature: "disposing a sub-context's owner panicked".into(), detail: msg });
                            }
                            for d in page.descendants(c) {
                                page.ctxs[d].alive = false;
                            }
                            stats.probe("owner_disposed");
                            if !exec::ready_ids().is_empty() {
                                stats.probe("owner_disposed_while_tasks_pending");
                            }
                        }
                        None => executed = false,
                    }
                }
                Op::Step { k } => {
                    let n = sched.steps(*k, rng, &last_panic);
                    stats.polls += n as u64;
                    if n > 0 {
                        for c in page.ctxs.iter_mut().filter(|c| c.pending.is_some()) {
                            c.ran_possible = true;
                        }
                    }
                }
                Op::Flush => {
                    let bound = 8 * (exec::live_tasks() + 4);
                    let (n, quiet) = sched.flush(bound, rng, &last_panic);
                    stats.polls += n as u64;
                    if !quiet {
                        violations.push(Violation { property: "C16", invariant: "bounded_liveness", signature: "effects did not reach quiescence within 8x live tasks polls".into(), detail: format!("{n} polls, {} tasks still ready", exec::ready_ids().len()) });
                    }
                    if n > 0 {
                        for c in page.ctxs.iter_mut().filter(|c| c.pending.is_some()) {
                            c.ran_possible = true;
                        }
                    }
                    // ---- quiescence: pending wired effects have run
                    if quiet {
                        for (ci, c) in page.ctxs.iter_mut().enumerate().filter(|(_, c)| c.alive && c.pending.is_some()) {
                            let x = c.pending.unwrap();
                            let view = page.views.iter().find(|v| v.ctx == ci).unwrap();
                            let got = loc_index((view.h.get_untracked)());
                            let allowed: Vec<usize> = c.cands.clone();
                            if allowed.contains(&got) {
                                c.locale = got;
                                c.history.push(got);
                            } else {
                                violations.push(Violation {
                                    property: "C16",
                                    invariant: "wired_signal",
                                    signature: "after quiescence a wired sub-context shows neither the wired value nor a later set".into(),
                                    detail: format!("ctx {ci}: allowed {:?}, got {}", allowed.iter().map(|l| LOCS[*l]).collect::<Vec<_>>(), LOCS[got]),
                                });
                                c.locale = got;
                            }
                            c.memo_val = x;
                            c.pending = None;
                            c.last_change_tracked = true;
                            stats.probe("wired_effect_resolved_at_quiescence");
                        }
                        // ---- bounded liveness of subscriptions (I4)
                        for s in &page.subs {
                            let c = &page.ctxs[s.ctx];
                            if !c.alive {
                                continue;
                            }
                            let log = s.log.lock().unwrap();
                            if let Some(bad) = log.iter().find(|l| !c.history.contains(l)) {
                                violations.push(Violation { property: "C16", invariant: "subscription", signature: "a subscriber observed a locale the context never held".into(), detail: format!("ctx {} observed {}", s.ctx, LOCS[*bad]) });
                            }
                            if c.last_change_tracked {
                                match log.last() {
                                    Some(l) if *l == c.locale => stats.probe("subscriber_caught_up_after_flush"),
                                    other => violations.push(Violation {
                                        property: "C16",
                                        invariant: "subscription",
                                        signature: "after a tracked set and a flush a subscriber's last observation is not the current locale".into(),
                                        detail: format!("ctx {} is {}, subscriber last saw {:?}", s.ctx, LOCS[c.locale], other.map(|l| LOCS[*l])),
                                    }),
                                }
                            } else {
                                stats.probe("subscriber_may_lag_after_untracked_set");
                            }
                        }
                        // reactive computations built around accessors (`t!`, `t_string!`, `t_display!` must be tracked)
                        for s in &page.reader_subs {
                            let c = &page.ctxs[s.ctx];
                            let r = &page.readers[s.reader].r;
                            if !c.alive || c.pending.is_some() || !r.tracked || !c.last_change_tracked {
                                continue;
                            }
                            let want = r.expected(LOCS[c.locale]);
                            let log = s.log.lock().unwrap();
                            match log.last() {
                                Some(t) if *t == want => stats.probe("reactive_accessor_caught_up_after_flush"),
                                other => violations.push(Violation {
                                    property: "C16",
                                    invariant: "accessor_tracking",
                                    signature: format!("a computation built around {} did not re-run after a tracked set and a flush", r.label.rsplit(": ").next().unwrap_or("").split('(').next().unwrap_or("")),
                                    detail: format!("ctx {} is {}, computation around {} last produced {:?}, expected {want:?}", s.ctx, LOCS[c.locale], r.label, other),
                                }),
                            }
                        }
                    }
                }
            }
            if !executed {
                stats.skipped_ops += 1;
                continue;
            }
            for (id, b) in &page.region_builds {
                if page.ctxs[*id].alive && b.load(std::sync::atomic::Ordering::SeqCst) > 1 {
                    stats.probe("reactive_region_built_again");
                }
            }
            // ---- task panics are events
            for (id, born, msg) in exec::take_panics() {
                violations.push(Violation { property: "C16", invariant: "no_panic", signature: format!("a task spawned during {} panicked", born.rsplit(':').next().unwrap_or("")), detail: format!("task {id} ({born}): {msg}") });
            }
            // ---- I1/I2/I3 after every operation: every live context, every scoped view, every reader
            for (vi, v) in page.views.iter().enumerate() {
                let c = &mut page.ctxs[v.ctx];
                if !c.alive {
                    continue;
                }
                let got = match guarded(|| loc_index((v.h.get_untracked)())) {
                    Ok(g) => g,
                    Err(msg) => {
                        violations.push(Violation { property: "C16", invariant: "no_panic", signature: "get_locale_untracked panicked on a live context".into(), detail: msg });
                        continue;
                    }
                };
                let ok = match c.pending {
                    None => got == c.locale,
                    Some(x) => {
                        if got == x && x != c.locale {
                            // the wired effect has run: commit
                            c.locale = x;
                            c.history.push(x);
                            c.memo_val = x;
                            c.pending = None;
                            c.last_change_tracked = true;
                            true
                        } else {
                            got == c.locale
                        }
                    }
                };
                if !ok {
                    let what = if v.h.kind == "root" { "context".to_string() } else { format!("scoped view ({})", v.h.kind) };
                    violations.push(Violation {
                        property: "C16",
                        invariant: "context_value",
                        signature: format!("{} {} does not show the last locale set", if c.is_sub { "sub-context" } else { "main context" }, if v.h.kind == "root" { "value" } else { "scoped view" }),
                        detail: format!("load {li} op {oi} {}: view {vi} {what} of ctx {} shows {}, model says {}", op.to_json(), v.ctx, LOCS[got], LOCS[c.locale]),
                    });
                    // resynchronise so one divergence is reported once
                    c.locale = got;
                }
            }
            for r in &page.readers {
                let c = &page.ctxs[r.ctx];
                if !c.alive || c.pending.is_some() {
                    continue;
                }
                let want = r.r.expected(LOCS[c.locale]);
                match guarded(|| (r.r.read)()) {
                    Ok(got) if got == want => {}
                    Ok(got) => violations.push(Violation {
                        property: "C16",
                        invariant: "reader_text",
                        signature: format!("{} renders text of another locale or key", r.r.label.split('(').next().unwrap_or("")),
                        detail: format!("load {li} op {oi} {}: {} of ctx {} gives {got:?}, expected {want:?}", op.to_json(), r.r.label, r.ctx),
                    }),
                    Err(msg) => violations.push(Violation { property: "C16", invariant: "no_panic", signature: format!("{} panicked", r.r.label.split('(').next().unwrap_or("")), detail: msg }),
                }
            }
            let state: String = page.ctxs.iter().map(|c| format!("{}{}{}", c.alive as u8, c.locale, c.pending.map(|p| p + 1).unwrap_or(0))).collect();
            stats.model_states.push(simkit::fnv(state.as_bytes()));
        }
        // ---- end of the page load: run to quiescence, collect Set-Cookie, dispose, drain
        exec::set_label(&format!("load{li}:end"));
        let (n, _) = sched.flush(8 * (exec::live_tasks() + 4), rng, &last_panic);
        stats.polls += n as u64;
        // a wired write whose effect ran during this final flush was held by the context, too
        for c in page.ctxs.iter_mut() {
            if let Some(x) = c.pending {
                c.history.push(x);
            }
        }
        #[allow(unused_mut)]
        let mut emitted = page.emitted.lock().unwrap().clone();
        #[cfg(feature = "world_ax")]
        if page.default_getters {
            // the Set-Cookie headers the integration would send
            for h in response_options.0.read().headers.get_all(http::header::SET_COOKIE) {
                let text = h.to_str().unwrap_or("");
                if let Some((n, v)) = text.split(';').next().unwrap_or("").split_once('=') {
                    emitted.push((n.trim().to_string(), v.trim().to_string()));
                }
            }
        }
        for (name, value) in &emitted {
            stats.probe("set_cookie_emitted");
            // ---- C15/C13 by-product: what the server stores is a configured locale name this page's context held
            let owners: Vec<&CtxM> = page.ctxs.iter().filter(|c| c.cookie_name.as_deref() == Some(name.as_str())).collect();
            let valid = LOCS.iter().position(|l| l == value);
            let ok = match valid {
                Some(l) => owners.iter().any(|c| c.history.contains(&l)),
                None => false,
            };
            if !ok {
                violations.push(Violation {
                    property: "C15",
                    invariant: "cookie_round_trip",
                    signature: if owners.is_empty() { "a cookie was written under a name no context of the page uses".into() } else { "the stored cookie value is not a locale the context held".into() },
                    detail: format!("Set-Cookie {name}={value:?}; contexts using that name held {:?}", owners.iter().map(|c| c.history.iter().map(|l| LOCS[*l]).collect::<Vec<_>>()).collect::<Vec<_>>()),
                });
            }
            jar.insert(name.clone(), value.clone());
        }
        if emitted.is_empty() {
            stats.probe("page_load_without_set_cookie");
        }
        // ---- persistence: the locale last set (tracked) on the only context using a cookie name is what the client stores
        let names: std::collections::BTreeSet<String> = page.ctxs.iter().filter_map(|c| c.cookie_name.clone()).collect();
        for name in &names {
            let owners: Vec<&CtxM> = page.ctxs.iter().filter(|c| c.cookie_name.as_deref() == Some(name.as_str())).collect();
            if owners.len() != 1 {
                stats.probe("cookie_name_shared_by_several_contexts");
                continue;
            }
            let c = owners[0];
            if !c.alive || !c.last_change_tracked || c.history.len() < 2 || c.pending.is_some() {
                continue;
            }
            let have = cookie_locale(&page.cookie_header, name);
            let last = emitted.iter().rev().find(|(n, _)| n == name).map(|(_, v)| v.as_str());
            if last == Some(LOCS[c.locale]) {
                stats.probe("cookie_persistence_checked");
            } else if last.is_none() && have == Some(c.locale) {
                stats.probe("cookie_already_held_the_final_locale");
            } else {
                // leptos-use writes the server cookie from the second run of its effect on: whether a locale set before the
                // effects first ran is written depends on the order the two effects run in. Counted, not judged: no claimed
                // property covers persistence.
                stats.probe("cookie_not_rewritten_after_a_set");
            }
        }
        let (spawned, _, _) = exec::stats();
        stats.tasks_spawned += spawned;
        let r = guarded(|| root.cleanup());
        if let Err(msg) = r {
            violations.push(Violation { property: "C16", invariant: "no_panic", signature: "disposing the page's root owner panicked".into(), detail: msg });
        }
        // leftover tasks of the disposed page must not panic when polled (I6)
        let (n, _) = sched.flush(8 * (exec::live_tasks() + 4), rng, &last_panic);
        stats.polls += n as u64;
        for (id, born, msg) in exec::take_panics() {
            stats.probe("task_panicked_after_disposal");
            let _ = (id, born, msg); // counted, not judged: the context is gone
        }
        drop(page);
    }
    stats.choice_points = sched.choice_points;
    exec::reset();
    Outcome { violations, stats, schedule: sched.trace.clone(), final_jar: jar, executed_loads }
}
