//! sim_world: reactive contexts, simulated clients and a simulated SSR server on one seeded task executor.
//! Builds: world_ssr (shipped server configuration), world_fx (ssr + reactive_graph/effects: Effect and
//! RenderEffect tasks really run), world_dyn (ssr + dynamic_load, for the embedded translations script).
#![allow(clippy::all)]
leptos_i18n::load_locales!();

mod common;
mod exec;
#[allow(unused_macros)]
mod fixture;
#[cfg(feature = "world_dyn")]
mod server;
#[cfg(not(feature = "world_dyn"))]
mod session;

use serde_json::{json, Value};
use simkit::pool::{self, PoolConfig, Reply};
use simkit::{known, Rng};
use std::collections::{BTreeMap, BTreeSet};
use std::io::{BufRead, Write};
use std::time::{Duration, Instant};

const BUILD: &str = if cfg!(feature = "world_nc") {
    "world_nc"
} else if cfg!(feature = "world_ax") {
    "world_ax"
} else if cfg!(feature = "world_fx") {
    "world_fx"
} else if cfg!(feature = "world_dyn") {
    "world_dyn"
} else {
    "world_ssr"
};

fn setup_process() {
    common::install_panic_hook();
    exec::install();
}

#[cfg(not(feature = "world_dyn"))]
fn violations_json(vs: &[common::Violation]) -> Vec<Value> {
    vs.iter().map(|v| json!({"property": v.property, "invariant": v.invariant, "signature": v.signature, "detail": v.detail})).collect()
}

/// {"mode":"session","seed":S,"run":i,"ows":bool} | {"mode":"session","plan":{..}} | {"mode":"server",...}
fn handle(req: &Value) -> Value {
    match req["mode"].as_str().unwrap_or("session") {
        #[cfg(not(feature = "world_dyn"))]
        "session" => {
            let (plan, mut rng) = if let Some(p) = req.get("plan") {
                match session::Plan::from_json(p) {
                    Some(plan) => (plan, Rng::new(0)),
                    None => return json!({"harness_error": "bad session plan"}),
                }
            } else {
                let mut rng = Rng::for_run(req["seed"].as_u64().unwrap_or(0), req["run"].as_u64().unwrap_or(0));
                let plan = session::generate(&mut rng, req["ows"].as_bool().unwrap_or(false));
                (plan, rng)
            };
            let out = session::execute(&plan, &mut rng);
            let mut states: Vec<u64> = out.stats.model_states.clone();
            states.sort();
            states.dedup();
            json!({
                "plan": plan.to_json(&out.schedule),
                "violations": violations_json(&out.violations),
                "interleaving": format!("{:016x}", simkit::fnv(format!("{:?}", out.schedule).as_bytes())),
                "stats": {
                    "ops": out.stats.ops, "skipped_ops": out.stats.skipped_ops, "polls": out.stats.polls, "tasks_spawned": out.stats.tasks_spawned,
                    "choice_points": out.stats.choice_points, "probes": out.stats.probes, "model_states": states,
                    "loads": plan.loads.len(), "policy": plan.policy.name(),
                },
                "final_jar": out.final_jar,
                "requests": out.executed_loads,
            })
        }
        #[cfg(feature = "world_dyn")]
        "server" => server::handle(req),
        other => json!({"harness_error": format!("mode {other} is not available in build {BUILD}")}),
    }
}

fn worker() {
    setup_process();
    let stdin = std::io::stdin();
    let stdout = std::io::stdout();
    for line in stdin.lock().lines() {
        let Ok(line) = line else { break };
        if line.trim().is_empty() {
            continue;
        }
        let reply = match serde_json::from_str::<Value>(&line) {
            Ok(req) => handle(&req),
            Err(e) => json!({"harness_error": format!("bad request: {e}")}),
        };
        let mut o = stdout.lock();
        let _ = writeln!(o, "{}", reply);
        let _ = o.flush();
    }
}

struct Opts {
    tier: String,
    seed: u64,
    evidence: String,
    replay_dir: String,
    known: String,
    workers: usize,
}

fn parse_opts(prop: &str, args: &[String]) -> Opts {
    let mut o = Opts {
        tier: std::env::var("VERIF_TIER").unwrap_or_else(|_| "quick".into()),
        seed: 0,
        evidence: format!("/verif/evidence/{prop}.json"),
        replay_dir: "/verif/replays".into(),
        known: "/verif/known_findings.json".into(),
        workers: std::thread::available_parallelism().map(|n| n.get()).unwrap_or(4),
    };
    let mut seed_set = false;
    let mut i = 0;
    while i < args.len() {
        let v = args.get(i + 1).cloned().unwrap_or_default();
        match args[i].as_str() {
            "--tier" => o.tier = v,
            "--seed" => {
                o.seed = v.parse().unwrap_or(0);
                seed_set = true;
            }
            "--evidence" => o.evidence = v,
            "--replay-dir" => o.replay_dir = v,
            "--known" => o.known = v,
            "--workers" => o.workers = v.parse().unwrap_or(o.workers),
            _ => {
                i += 1;
                continue;
            }
        }
        i += 2;
    }
    if !seed_set {
        o.seed = simkit::seed_from_env(if o.tier == "thorough" { 20260926 } else { 1 });
    }
    o
}

fn sibling(name: &str) -> String {
    let me = std::env::current_exe().expect("current exe");
    me.parent().expect("exe dir").join(name).to_string_lossy().to_string()
}

fn pool_for(binary: &str, workers: usize) -> PoolConfig {
    PoolConfig { exe: sibling(binary), args: vec!["worker".into()], envs: vec![], workers, watchdog: Duration::from_secs(120), max_lost: 24 }
}

type V = (String, String, String);

fn violations_of(prop: &str, reply: &Reply) -> Vec<V> {
    match reply {
        Reply::Ok(v) => {
            if let Some(e) = v.get("harness_error") {
                simkit::harness_error(&format!("worker: {e}"));
            }
            v["violations"]
                .as_array()
                .map(|a| {
                    a.iter()
                        .filter(|x| x["property"].as_str() == Some(prop))
                        .map(|x| (x["invariant"].as_str().unwrap_or("").to_string(), x["signature"].as_str().unwrap_or("").to_string(), x["detail"].as_str().unwrap_or("").to_string()))
                        .collect()
                })
                .unwrap_or_default()
        }
        Reply::Died(info) => vec![("no_abort".into(), "worker process died".into(), info.clone())],
        Reply::Hung => vec![("no_hang".into(), "no reply within watchdog".into(), String::new())],
        Reply::Skipped => vec![],
    }
}

/// Minimise a session plan: drop page loads, drop operations (ddmin per load), simplify the schedule.
fn minimise_session(prop: &str, cfg: &PoolConfig, plan: &Value, inv: &str, sig: &str) -> Value {
    let fails = |cand: &Value| -> bool {
        let r = pool::run_one_fresh(cfg, &json!({"mode": "session", "plan": cand}));
        violations_of(prop, &r).iter().any(|(i, s, _)| i == inv && s == sig)
    };
    let mut cur = plan.clone();
    // 1. drop whole page loads (from the end first)
    let mut loads = cur["loads"].as_array().cloned().unwrap_or_default();
    let mut i = loads.len();
    while i > 0 && loads.len() > 1 {
        i -= 1;
        let mut cand_loads = loads.clone();
        cand_loads.remove(i);
        let mut cand = cur.clone();
        cand["loads"] = json!(cand_loads);
        if fails(&cand) {
            loads = cand_loads;
            cur = cand;
        }
    }
    // 2. ddmin the operations of each remaining load
    for li in 0..loads.len() {
        let ops = cur["loads"][li]["ops"].as_array().cloned().unwrap_or_default();
        if ops.len() <= 1 {
            continue;
        }
        let base = cur.clone();
        let mut f = |items: &[Value]| {
            let mut cand = base.clone();
            cand["loads"][li]["ops"] = json!(items);
            fails(&cand)
        };
        let kept = simkit::ddmin::ddmin(ops, &mut f);
        cur["loads"][li]["ops"] = json!(kept);
    }
    // 3. simplest environment and schedule
    for (path, simple) in [("schedule", json!([]))] {
        let mut cand = cur.clone();
        cand[path] = simple;
        if fails(&cand) {
            cur = cand;
        }
    }
    let mut cand = cur.clone();
    cand["jar"] = json!({});
    if fails(&cand) {
        cur = cand;
    }
    // 4. canonical form: re-run and keep the schedule actually taken
    match pool::run_one_fresh(cfg, &json!({"mode": "session", "plan": cur})) {
        Reply::Ok(v) if v.get("plan").is_some() => v["plan"].clone(),
        _ => cur,
    }
}

struct Batch {
    label: &'static str,
    binary: &'static str,
    mode: &'static str,
    extra: Value,
    runs: usize,
}

fn check(args: &[String]) -> i32 {
    let prop = args.first().cloned().unwrap_or_default();
    let opts = parse_opts(&prop, &args[1..]);
    let thorough = opts.tier == "thorough";
    let batches: Vec<Batch> = match prop.as_str() {
        "C15" | "C16" => vec![
            Batch { label: "sessions_effects_on", binary: "world_fx", mode: "session", extra: json!({"ows": false}), runs: if thorough { 1_500_000 } else { 150_000 } },
            Batch { label: "sessions_server_config", binary: "world_ssr", mode: "session", extra: json!({"ows": false}), runs: if thorough { 600_000 } else { 60_000 } },
            Batch { label: "sessions_optional_whitespace", binary: "world_ssr", mode: "session", extra: json!({"ows": true}), runs: if thorough { 200_000 } else { 20_000 } },
            Batch { label: "streaming_render_slice", binary: "world_dyn", mode: "server", extra: json!({}), runs: if thorough { 300_000 } else { 30_000 } },
            Batch { label: "sessions_cookie_feature_off", binary: "world_nc", mode: "session", extra: json!({"ows": false}), runs: if thorough { 200_000 } else { 20_000 } },
            Batch { label: "sessions_axum_default_getters", binary: "world_ax", mode: "session", extra: json!({"ows": false}), runs: if thorough { 400_000 } else { 40_000 } },
        ],
        "C17" => vec![Batch { label: "streaming_requests", binary: "world_dyn", mode: "server", extra: json!({}), runs: if thorough { 1_000_000 } else { 100_000 } }],
        _ => simkit::harness_error("sim_world serves C15, C16 and C17"),
    };
    let t0 = Instant::now();
    println!("sim_world {prop} tier={} VERIF_SEED={} workers={}", opts.tier, opts.seed, opts.workers);
    let known_list = known::load(&opts.known);
    let mut evaluations = 0u64;
    let mut interleavings: BTreeSet<String> = BTreeSet::new();
    let mut states: BTreeSet<u64> = BTreeSet::new();
    let mut nontrivial: BTreeSet<u64> = BTreeSet::new();
    let mut probes: BTreeMap<String, u64> = BTreeMap::new();
    let mut samples: Vec<Value> = vec![];
    let mut polls = 0u64;
    let mut reported = 0u64;
    let mut known_reported: Vec<String> = vec![];
    let mut class_counts: BTreeMap<String, u64> = BTreeMap::new();
    let mut batch_info = vec![];
    for b in &batches {
        let cfg = pool_for(b.binary, opts.workers);
        let bseed = opts.seed ^ simkit::fnv(b.label.as_bytes());
        let reqs: Vec<Value> = (0..b.runs)
            .map(|i| {
                let mut r = json!({"mode": b.mode, "seed": bseed, "run": i});
                for (k, v) in b.extra.as_object().unwrap() {
                    r[k] = v.clone();
                }
                r
            })
            .collect();
        let tb = Instant::now();
        // (class -> representative: its request, its reply, the violation) -- replies are processed chunk by chunk so that
        // a batch of millions of runs does not keep every reply in memory
        let mut classes: BTreeMap<String, (Value, Reply, V)> = BTreeMap::new();
        const CHUNK: usize = 100_000;
        for (ci, chunk) in reqs.chunks(CHUNK).enumerate() {
        let replies = pool::run_all(&cfg, chunk);
        write_digests(b.label, ci * CHUNK, &replies);
        for (j, r) in replies.iter().enumerate() {
            let i = ci * CHUNK + j;
            evaluations += 1;
            if let Reply::Ok(v) = r {
                let st = &v["stats"];
                polls += st["polls"].as_u64().unwrap_or(0);
                interleavings.insert(format!("{}:{}", v["interleaving"].as_str().unwrap_or(""), st["ops"]));
                for s in st["model_states"].as_array().cloned().unwrap_or_default() {
                    states.insert(s.as_u64().unwrap_or(0));
                }
                // non-trivial: the scheduler had a real choice at least once, or several requests/page loads interacted
                if st["choice_points"].as_u64().unwrap_or(0) > 0 || st["loads"].as_u64().unwrap_or(0) > 1 || st["requests"].as_u64().unwrap_or(0) > 1 {
                    nontrivial.insert(simkit::fnv(v["plan"].to_string().as_bytes()));
                }
                for (k, n) in st["probes"].as_object().cloned().unwrap_or_default() {
                    *probes.entry(k).or_default() += n.as_u64().unwrap_or(0);
                }
                for k in ["ops", "skipped_ops", "tasks_spawned", "choice_points"] {
                    *probes.entry(format!("total_{k}")).or_default() += st[k].as_u64().unwrap_or(0);
                }
                *probes.entry(format!("policy_{}", st["policy"].as_str().unwrap_or(""))).or_default() += 1;
                if samples.len() < 5 && i % (b.runs / 2 + 1) == 0 {
                    samples.push(json!({"batch": b.label, "plan": v["plan"], "requests": v["requests"], "final_jar": v["final_jar"], "responses": v["responses"]}));
                }
            }
            for v in violations_of(&prop, r) {
                let class = format!("{}|{}", v.0, v.1);
                *class_counts.entry(format!("{}|{class}", b.label)).or_default() += 1;
                classes.entry(class).or_insert_with(|| (chunk[j].clone(), r.clone(), v));
            }
        }
        }
        batch_info.push(json!({"batch": b.label, "binary": b.binary, "runs": b.runs, "wall_s": tb.elapsed().as_secs_f64(), "violation_classes": classes.len()}));
        for (class, (req0, reply0, (inv, sig, detail))) in classes.iter().take(10) {
            let _ = std::fs::create_dir_all(&opts.replay_dir);
            let path = format!("{}/{prop}-{}-{}-{:016x}.json", opts.replay_dir, b.label, opts.seed, simkit::fnv(class.as_bytes()));
            let Reply::Ok(v) = reply0 else {
                println!("violation: {inv} :: {sig} :: {detail}");
                std::fs::write(&path, serde_json::to_string_pretty(&json!({"engine": "sim_world", "binary": b.binary, "property": prop, "request": req0, "expected": {"invariant": inv, "signature": sig}})).unwrap()).expect("write replay");
                println!("VIOLATION property={prop} replay={path}");
                reported += 1;
                continue;
            };
            let minimal = if b.mode == "session" { minimise_session(&prop, &cfg, &v["plan"], inv, sig) } else { minimise_server(&prop, &cfg, &v["plan"], inv, sig) };
            let confirm = pool::run_one_fresh(&cfg, &json!({"mode": b.mode, "plan": minimal}));
            let again = violations_of(&prop, &confirm);
            let Some((_, _, detail2)) = again.iter().find(|(i, s, _)| i == inv && s == sig) else {
                eprintln!("HARNESS-ERROR: violation class {class} did not reproduce from its minimised plan in a fresh process");
                return simkit::EXIT_HARNESS;
            };
            let full_sig = format!("{sig} :: batch={} :: {detail2}", b.label);
            if let Some(k) = known::matching(&known_list, &prop, inv, &full_sig) {
                let line = format!("KNOWN-FINDING: property={prop} {} [{}] ({} runs in batch {})", k.what, k.id, class_counts[&format!("{}|{class}", b.label)], b.label);
                println!("{line}");
                known_reported.push(line);
                continue;
            }
            let rp = json!({
                "engine": "sim_world", "binary": b.binary, "mode": b.mode, "property": prop, "seed": opts.seed, "tier": opts.tier, "batch": b.label,
                "plan": minimal, "original_request": req0, "original_plan": v["plan"],
                "expected": {"invariant": inv, "signature": sig, "detail": detail2},
            });
            std::fs::write(&path, serde_json::to_string_pretty(&rp).unwrap() + "\n").expect("write replay");
            println!("violation: {inv} :: {sig} :: {detail2}");
            println!("VIOLATION property={prop} replay={path}");
            reported += 1;
        }
    }
    let wall = t0.elapsed().as_secs_f64();
    let mut ev = simkit::evidence::Evidence::default();
    ev.property_id = prop.clone();
    ev.tier = opts.tier.clone();
    ev.seed = opts.seed;
    ev.level = "exploration".into();
    ev.evaluations = evaluations;
    ev.distinct_nontrivial = nontrivial.len() as u64;
    ev.rule = match prop.as_str() {
        "C17" => "a run = 1-3 concurrent streaming SSR requests on one seeded executor; each request renders a generated page (provider, text nodes, scoped subtrees, sub-context providers, render-time set_locale, Suspense nodes gated by the simulator) through the production streaming glue; the scheduler picks which ready task (request handler, resource, chunk producer, effect) runs next, opens gates at drawn steps and may drop a response mid-stream. The embedded script of every complete response is decoded by the harness and compared with the parser's tables for the units the request used. Non-trivial = the scheduler had a choice or several requests overlapped; distinct = distinct plan.".to_string(),
        _ => "a run = a client (cookie jar incl. invalid/foreign values and prefix-named cookies, Accept-Language from a closed universe incl. q-values, wildcards, garbage) loading a page 1-3 times; each page load is an operation history (create main / sub-contexts incl. parent-less, constant or wired initial locale, custom cookie names; scope views to depth 3; set / set_untracked through any view; write wired signals; make readers of 7 flavours; subscribe; dispose owners; step / flush) executed against the real contexts while a seeded scheduler (random / FIFO / LIFO / PCT) decides which effect task runs next; a sequential reference model is compared after every operation and at every creation point; Set-Cookie values emitted by the real effect chain become the jar of the next load. Non-trivial = the scheduler had a real choice or more than one page load; distinct = distinct plan incl. schedule.".to_string(),
    };
    ev.samples = samples;
    ev.probes = probes;
    ev.wall_s = wall;
    ev.violations = reported;
    ev.known_findings = known_reported;
    ev.faults_fired = BTreeMap::new();
    for (k, v) in ev.probes.clone() {
        if k.starts_with("fault_") {
            ev.faults_fired.insert(k, v);
        }
    }
    ev.extra.insert("distinct_interleavings".into(), json!(interleavings.len()));
    ev.extra.insert("distinct_interleavings_rule".into(), json!("distinct sequences of polled task ids (paired with the run's operation count)"));
    ev.extra.insert("distinct_model_states".into(), json!(states.len()));
    ev.extra.insert("simulated_time".into(), json!(format!("{polls} task polls (no clock exists in the code under test; logical steps only)")));
    ev.extra.insert("batches".into(), json!(batch_info));
    ev.extra.insert("violation_classes".into(), json!(class_counts));
    ev.components = vec![
        json!({"component": "leptos_i18n (context, sub-context, scopes, fetch_locale, generated accessors and providers, RegisterCtx)", "status": "real, /repo working tree"}),
        json!({"component": "leptos 0.7.8 reactive_graph / tachys streaming / leptos_meta / leptos-use ssr paths (use_cookie, use_locales)", "status": "real, pinned by /repo/Cargo.lock"}),
        json!({"component": "async executor", "status": "simulator (seeded; any_spawner custom executor)"}),
        json!({"component": "HTTP server, browser, cookie store, request headers", "status": "simulator (headers and Set-Cookie through the injectable closures; HTML reassembled by the harness)"}),
        json!({"component": "wasm client (csr/hydrate paths, router effects)", "status": "not run"}),
        json!({"component": "world_fx build", "status": "hybrid: server seams + reactive_graph/effects forced on, so Effect/RenderEffect logic of leptos_i18n executes natively"}),
    ];
    ev.assumptions = vec![
        "Accept-Language matching itself is the library's find_locale (C12 is not re-judged); the model owns the list split (RFC 9110 OWS) and the precedence".into(),
        "cookie headers are drawn from an unambiguous family (no quoted, percent-encoded, duplicated or case-varied names/values)".into(),
        "whether a Set-Cookie is emitted at all is recorded, not judged (it depends on effect poll order and is outside the listed properties)".into(),
    ];
    ev.write(&opts.evidence);
    println!("sim_world {prop} done: {evaluations} runs, {} distinct non-trivial, {} interleavings, {} violation classes reported, {} known, {:.1}s", nontrivial.len(), interleavings.len(), reported, ev.known_findings.len(), wall);
    if reported > 0 {
        simkit::EXIT_VIOLATION
    } else {
        simkit::EXIT_OK
    }
}

fn minimise_server(prop: &str, cfg: &PoolConfig, plan: &Value, inv: &str, sig: &str) -> Value {
    let fails = |cand: &Value| -> bool {
        let r = pool::run_one_fresh(cfg, &json!({"mode": "server", "plan": cand}));
        violations_of(prop, &r).iter().any(|(i, s, _)| i == inv && s == sig)
    };
    let mut cur = plan.clone();
    // drop requests, then nodes of each request's page, then simplify the schedule
    let mut reqs = cur["requests"].as_array().cloned().unwrap_or_default();
    let mut i = reqs.len();
    while i > 0 && reqs.len() > 1 {
        i -= 1;
        let mut c = reqs.clone();
        c.remove(i);
        let mut cand = cur.clone();
        cand["requests"] = json!(c);
        if fails(&cand) {
            reqs = c;
            cur = cand;
        }
    }
    for ri in 0..reqs.len() {
        let nodes = cur["requests"][ri]["page"].as_array().cloned().unwrap_or_default();
        if nodes.len() <= 1 {
            continue;
        }
        let base = cur.clone();
        let mut f = |items: &[Value]| {
            let mut cand = base.clone();
            cand["requests"][ri]["page"] = json!(items);
            fails(&cand)
        };
        let kept = simkit::ddmin::ddmin(nodes, &mut f);
        cur["requests"][ri]["page"] = json!(kept);
    }
    let mut cand = cur.clone();
    cand["schedule"] = json!([]);
    if fails(&cand) {
        cur = cand;
    }
    match pool::run_one_fresh(cfg, &json!({"mode": "server", "plan": cur})) {
        Reply::Ok(v) if v.get("plan").is_some() => v["plan"].clone(),
        _ => cur,
    }
}

/// Determinism self-test support: one line per run with a hash of the worker's full reply.
fn write_digests(label: &str, offset: usize, replies: &[Reply]) {
    use std::io::Write;
    let Ok(path) = std::env::var("VERIF_DIGEST_OUT") else { return };
    let mut out = String::new();
    for (i, r) in replies.iter().enumerate() {
        let i = i + offset;
        let d = match r {
            Reply::Ok(v) => format!("{:016x}", simkit::fnv(v.to_string().as_bytes())),
            Reply::Died(_) => "died".to_string(),
            Reply::Hung => "hung".to_string(),
            Reply::Skipped => "skipped".to_string(),
        };
        out.push_str(&format!("{i} {d}\n"));
    }
    // (appended: a batch arrives in chunks; the self-test starts from an empty directory)
    if let Ok(mut f) = std::fs::OpenOptions::new().create(true).append(true).open(format!("{path}.{label}")) {
        let _ = f.write_all(out.as_bytes());
    }
}

fn replay(args: &[String]) -> i32 {
    let Some(path) = args.first() else { simkit::harness_error("usage: replay FILE") };
    let text = std::fs::read_to_string(path).unwrap_or_else(|e| simkit::harness_error(&format!("cannot read {path}: {e}")));
    let rp: Value = serde_json::from_str(&text).unwrap_or_else(|e| simkit::harness_error(&format!("bad replay file: {e}")));
    let binary = rp["binary"].as_str().unwrap_or(BUILD);
    let prop = rp["property"].as_str().unwrap_or("C16").to_string();
    let cfg = pool_for(binary, 1);
    let req = if rp.get("plan").is_some() { json!({"mode": rp["mode"].as_str().unwrap_or("session"), "plan": rp["plan"]}) } else { rp["request"].clone() };
    let r = pool::run_one_fresh(&cfg, &req);
    if let Reply::Ok(v) = &r {
        println!("replayed plan: {}", v["plan"]);
    }
    let vs = violations_of(&prop, &r);
    if vs.is_empty() {
        println!("no violation on this tree");
        return simkit::EXIT_OK;
    }
    for (inv, sig, detail) in &vs {
        let same = Some(inv.as_str()) == rp["expected"]["invariant"].as_str() && Some(sig.as_str()) == rp["expected"]["signature"].as_str();
        println!("violation{}: {inv} :: {sig} :: {detail}", if same { " (same as recorded)" } else { " (different from recorded)" });
    }
    println!("VIOLATION property={prop} replay={path}");
    simkit::EXIT_VIOLATION
}

fn main() {
    let args: Vec<String> = std::env::args().collect();
    let code = match args.get(1).map(|s| s.as_str()) {
        Some("worker") => {
            worker();
            0
        }
        Some("check") => check(&args[2..]),
        Some("replay") => replay(&args[2..]),
        #[cfg(not(feature = "world_dyn"))]
        Some("best-match") => {
            session::dump_best_match();
            0
        }
        Some("one") => {
            setup_process();
            let req: Value = serde_json::from_str(&args[2]).expect("request json");
            println!("{}", serde_json::to_string_pretty(&handle(&req)).unwrap());
            0
        }
        _ => {
            eprintln!("usage: sim_world worker | check C15|C16|C17 [--tier T --seed N --evidence F --replay-dir D] | replay FILE | one JSON");
            2
        }
    };
    std::process::exit(code);
}
