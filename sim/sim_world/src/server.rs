//! Server driver (build world_dyn): 1-3 concurrent streaming SSR requests on the seeded executor, each one
//! task running the production glue (`ExtendResponse::from_app`: new root owner, shared SSR context, meta
//! context injection, out-of-order or in-order streaming). The simulated browser reassembles each response;
//! the embedded translations script is decoded and compared with the parser's tables (C17).
use crate::exec::{self, Policy, Scheduler};
use crate::fixture::{decode_entities, loc, loc_index, LOCS};
use crate::i18n::*;
use crate::common::{last_panic, Violation};
use futures::StreamExt;
use leptos::prelude::*;
use leptos_i18n::context::{CookieOptions, UseLocalesOptions};
use leptos_integration_utils::{ExtendResponse, PinnedStream};
use leptos_meta::{MetaTags, ServerMetaContext};
use serde_json::{json, Value};
use simkit::Rng;
use std::collections::{BTreeMap, BTreeSet};
use std::future::Future;
use std::pin::Pin;
use std::sync::atomic::{AtomicBool, Ordering};
use std::sync::{Arc, Mutex};
use std::task::{Context, Poll, Waker};

// ------------------------------------------------------------------ gates (simulator-controlled resources)

#[derive(Clone, Default)]
pub struct Gate {
    open: Arc<AtomicBool>,
    wakers: Arc<Mutex<Vec<Waker>>>,
}

impl Gate {
    fn open(&self) {
        self.open.store(true, Ordering::SeqCst);
        for w in self.wakers.lock().unwrap().drain(..) {
            w.wake();
        }
    }
    fn wait(&self) -> GateFuture {
        GateFuture(self.clone())
    }
}

pub struct GateFuture(Gate);

impl Future for GateFuture {
    type Output = ();
    fn poll(self: Pin<&mut Self>, cx: &mut Context<'_>) -> Poll<()> {
        if self.0.open.load(Ordering::SeqCst) {
            Poll::Ready(())
        } else {
            self.0.wakers.lock().unwrap().push(cx.waker().clone());
            Poll::Pending
        }
    }
}

/// Yields to the scheduler exactly once.
pub struct YieldOnce(bool);

impl Future for YieldOnce {
    type Output = ();
    fn poll(mut self: Pin<&mut Self>, cx: &mut Context<'_>) -> Poll<()> {
        if self.0 {
            Poll::Ready(())
        } else {
            self.0 = true;
            cx.waker().wake_by_ref();
            Poll::Pending
        }
    }
}

// ------------------------------------------------------------------ page plan

/// (namespace, label, expected text template)
pub const KEYS: &[(&str, &str, &str)] = &[
    ("common", "common.hello", "hello[{L}]"),
    ("common", "common.app.name", "app.name[{L}]"),
    ("common", "common.app.deep.leaf", "app.deep.leaf[{L}]"),
    ("home", "home.title", "title[{L}]"),
    ("home", "home.sub.line", "sub.line[{L}]"),
    ("nasty", "nasty.quote", "say \"hi\" [{L}]"),
    ("nasty", "nasty.backslash", "back\\slash \\n \\\" [{L}]"),
    ("nasty", "nasty.seps", "ls\u{2028}ps\u{2029}end [{L}]"),
    ("nasty", "nasty.single", "it's 'quoted' `backtick` ${x} [{L}]"),
    ("nasty", "nasty.amp", "a & b < c > d [{L}]"),
    ("nasty", "nasty.script_upper", "x </SCRIPT> y </ScRiPt > z <SCRIPT>w [{L}]"),
    ("nasty", "nasty.comment_script", "<!--<script> still inside </script --> [{L}]"),
    // U+0000 directly followed by digits: `\0` + digit would be a legacy octal escape in an inline script
    ("nasty", "nasty.nul", "field\u{0}7 of 9, \u{0}12 and \u{0}8 [{L}]"),
    // a unit whose table is empty for en and de (only an interpolation), non-empty for the other locales
    ("bare", "bare.only", "7{BARE}"),
    // a namespace whose name is not an identifier: the unit id carries the name, not the identifier
    ("side-bar", "side-bar.title", "side.title[{L}]"),
    ("side-bar", "side-bar.entry", "side.entry[{L}] 4"),
    // keys some locales leave out: the text (and the unit read) is the one of the locale the key falls back to
    ("partial", "partial.here", "here[{L}]"),
    ("partial", "partial.only_default", "only.default[{U}]"),
    ("partial", "partial.from_parent", "from.parent[{U}]"),
];

/// The locale whose table holds the text of `key` for a context in `locale`: the locale itself, or for a key the locale
/// leaves out the locale it inherits from (`fr-CA` -> `fr`, configured), else the default locale.
fn unit_locale(key: usize, locale: &str) -> &'static str {
    let own = LOCS.iter().find(|l| **l == locale).copied().unwrap_or("en");
    match KEYS[key % KEYS.len()].1 {
        "partial.only_default" => "en",
        "partial.from_parent" => match locale {
            "fr" | "fr-CA" => "fr",
            _ => "en",
        },
        _ => own,
    }
}

/// Records the unit a synchronous read of `key` in `locale` must leave in the script. When the key falls back to another
/// locale, the unit of `locale` itself is allowed but not demanded.
fn read_unit(must: &mut BTreeSet<(String, String)>, may: &mut BTreeSet<(String, String)>, key: usize, locale: &str) {
    let u = unit_of(key, locale);
    if u.0 != locale {
        may.insert((locale.to_string(), u.1.clone()));
    }
    must.insert(u);
}

/// The translation unit a read of `key` in `locale` uses.
fn unit_of(key: usize, locale: &str) -> (String, String) {
    (unit_locale(key, locale).to_string(), KEYS[key % KEYS.len()].0.to_string())
}

fn expected_text(key: usize, locale: &str) -> String {
    let bare = if locale == "en" || locale == "de" { String::new() } else { format!(" [{locale}]") };
    KEYS[key % KEYS.len()].2.replace("{L}", locale).replace("{U}", unit_locale(key, locale)).replace("{BARE}", &bare)
}

fn text_node(i18n: leptos_i18n::I18nContext<Locale>, key: usize, n: usize) -> AnyView {
    let id = n.to_string();
    match key % KEYS.len() {
        0 => view! { <p data-n=id>{t!(i18n, common.hello)}</p> }.into_any(),
        1 => view! { <p data-n=id>{t!(i18n, common.app.name)}</p> }.into_any(),
        2 => {
            let scoped = scope_i18n!(i18n, common.app.deep);
            view! { <p data-n=id>{t!(scoped, leaf)}</p> }.into_any()
        }
        3 => view! { <p data-n=id>{t!(i18n, home.title)}</p> }.into_any(),
        4 => {
            let scoped = scope_i18n!(i18n, home);
            view! { <p data-n=id>{t!(scoped, sub.line)}</p> }.into_any()
        }
        5 => view! { <p data-n=id>{t!(i18n, nasty.quote)}</p> }.into_any(),
        6 => view! { <p data-n=id>{t!(i18n, nasty.backslash)}</p> }.into_any(),
        7 => view! { <p data-n=id>{t!(i18n, nasty.seps)}</p> }.into_any(),
        8 => view! { <p data-n=id>{t!(i18n, nasty.single)}</p> }.into_any(),
        9 => view! { <p data-n=id>{t!(i18n, nasty.amp)}</p> }.into_any(),
        10 => view! { <p data-n=id>{t!(i18n, nasty.script_upper)}</p> }.into_any(),
        11 => view! { <p data-n=id>{t!(i18n, nasty.comment_script)}</p> }.into_any(),
        12 => view! { <p data-n=id>{t!(i18n, nasty.nul)}</p> }.into_any(),
        13 => view! { <p data-n=id>{t!(i18n, bare.only, x = "7")}</p> }.into_any(),
        14 => view! { <p data-n=id>{t!(i18n, side_bar.title)}</p> }.into_any(),
        15 => {
            let scoped = scope_i18n!(i18n, side_bar);
            view! { <p data-n=id>{t!(scoped, entry, n = 4)}</p> }.into_any()
        }
        16 => view! { <p data-n=id>{t!(i18n, partial.here)}</p> }.into_any(),
        17 => view! { <p data-n=id>{t!(i18n, partial.only_default)}</p> }.into_any(),
        _ => view! { <p data-n=id>{t!(i18n, partial.from_parent)}</p> }.into_any(),
    }
}

/// keys a `Td` node can read (indices into KEYS)
pub const TD_KEYS: &[usize] = &[0, 3, 5, 14, 16, 17, 18];

/// A text read with an explicit locale (`td!`): a language switcher, a "read this page in ..." link. The locale is
/// whatever the caller names, not the locale of the context around it.
fn td_node(l: usize, key: usize, n: usize) -> AnyView {
    let id = n.to_string();
    let l = loc(l);
    match key % KEYS.len() {
        0 => view! { <p data-n=id>{td!(l, common.hello)}</p> }.into_any(),
        3 => view! { <p data-n=id>{td!(l, home.title)}</p> }.into_any(),
        5 => view! { <p data-n=id>{td!(l, nasty.quote)}</p> }.into_any(),
        14 => view! { <p data-n=id>{td!(l, side_bar.title)}</p> }.into_any(),
        16 => view! { <p data-n=id>{td!(l, partial.here)}</p> }.into_any(),
        17 => view! { <p data-n=id>{td!(l, partial.only_default)}</p> }.into_any(),
        _ => view! { <p data-n=id>{td!(l, partial.from_parent)}</p> }.into_any(),
    }
}

#[derive(Clone, Debug)]
pub enum Node {
    Text { key: usize },
    Set { l: usize },
    /// a sub-context provider; `inner`: another sub-context provider nested inside it (init, keys)
    /// `lazy`: one more child that looks its context up only when it is rendered (`{move || ..}`), not when it is built
    /// `outer_key`: one more child inside the provider that reads through the *page's* context (a handle taken outside)
    Sub { init: Option<usize>, keys: Vec<usize>, inner: Option<(Option<usize>, Vec<usize>)>, lazy: bool, outer_key: Option<usize> },
    Suspense { gate: usize, key: usize },
    /// `td!` with an explicit locale, whatever the context's locale is
    Td { l: usize, key: usize },
}

impl Node {
    fn to_json(&self) -> Value {
        match self {
            Node::Text { key } => json!({"t": "text", "key": KEYS[*key % KEYS.len()].1}),
            Node::Set { l } => json!({"t": "set", "l": LOCS[*l % LOCS.len()]}),
            Node::Td { l, key } => json!({"t": "td", "l": LOCS[*l % LOCS.len()], "key": KEYS[*key % KEYS.len()].1}),
            Node::Sub { init, keys, inner, lazy, outer_key } => json!({
                "lazy": lazy, "outer_key": outer_key.map(|k| KEYS[k % KEYS.len()].1),
                "t": "sub", "init": init.map(|l| LOCS[l % LOCS.len()]), "keys": keys.iter().map(|k| KEYS[*k % KEYS.len()].1).collect::<Vec<_>>(),
                "inner": inner.as_ref().map(|(i, ks)| json!({"init": i.map(|l| LOCS[l % LOCS.len()]), "keys": ks.iter().map(|k| KEYS[*k % KEYS.len()].1).collect::<Vec<_>>()})),
            }),
            Node::Suspense { gate, key } => json!({"t": "suspense", "gate": gate, "key": KEYS[*key % KEYS.len()].1}),
        }
    }
    fn from_json(v: &Value) -> Option<Node> {
        let key = |x: &Value| KEYS.iter().position(|k| Some(k.1) == x.as_str()).unwrap_or(0);
        let l = |x: &Value| LOCS.iter().position(|k| Some(*k) == x.as_str());
        Some(match v["t"].as_str()? {
            "text" => Node::Text { key: key(&v["key"]) },
            "set" => Node::Set { l: l(&v["l"]).unwrap_or(0) },
            "sub" => Node::Sub {
                init: l(&v["init"]),
                keys: v["keys"].as_array().map(|a| a.iter().map(key).collect()).unwrap_or_default(),
                inner: v["inner"].as_object().map(|o| (l(&o["init"]), o["keys"].as_array().map(|a| a.iter().map(key).collect()).unwrap_or_default())),
                lazy: v["lazy"].as_bool().unwrap_or(false),
                outer_key: if v["outer_key"].is_string() { Some(key(&v["outer_key"])) } else { None },
            },
            "td" => Node::Td { l: l(&v["l"]).unwrap_or(0), key: key(&v["key"]) },
            "suspense" => Node::Suspense { gate: v["gate"].as_u64().unwrap_or(0) as usize, key: key(&v["key"]) },
            _ => return None,
        })
    }
}

#[derive(Clone, Debug)]
pub struct Request {
    pub cookie: String,
    pub accept: String,
    pub in_order: bool,
    pub start_at: u64,
    pub drop_after_chunks: Option<usize>,
    pub page: Vec<Node>,
    /// provider props: 0 defaults, 1 enable_cookie=false, 2 cookie_name="site_locale", 3 set_dir_attr_on_html=false,
    /// 4 set_lang_attr_on_html=false, 5 enable_cookie=true + set_dir_attr_on_html=false, 6 both attributes off
    pub provider: u8,
    /// the whole provider sits under a `<Suspense>` boundary (its view is walked twice)
    pub under_suspense: bool,
    /// a run-once access inside a `Suspend` future: (key index into EAGER_KEYS, gate)
    pub eager: Option<(usize, usize)>,
    /// a hand-written integration: the page is built in one step and rendered with `to_html()` in a later one
    /// (other requests may be built or rendered in between)
    pub manual: bool,
    /// the provider's first child is built lazily (`{move || ..}`, `<Show>`, a route outlet) and sets this locale
    /// while it is being rendered, after the whole page was constructed
    pub lazy_set: Option<usize>,
    /// a translation read once while the page is being built (a component body, `AsyncDerived::new(.. t_string! ..)`):
    /// index into EAGER_KEYS
    pub eager_build: Option<usize>,
    /// the run-once access of `eager` happens after the future yielded once
    pub eager_yield: bool,
    /// the application provides a context of its own (`init_i18n_context_with_options` + `provide_context`) above the provider
    pub outer_context: bool,
}

/// (namespace, label, expected text template) of the run-once accesses
pub const EAGER_KEYS: &[(&str, &str, &str)] = &[("common", "common.bye", "bye[{L}] E"), ("common", "common.app.version", "app.version[{L}] 3"), ("side-bar", "side-bar.entry", "side.entry[{L}] 9")];

impl Request {
    fn enable_cookie(&self) -> bool {
        // a provider below an existing context returns that context (documented): the page's main context is then the
        // application's own, created with cookies disabled
        self.provider != 1 && !self.outer_context
    }
    fn cookie_name(&self) -> &'static str {
        if self.provider == 2 {
            "site_locale"
        } else {
            "i18n_pref_locale"
        }
    }
    fn sets_lang(&self) -> bool {
        self.provider != 4 && self.provider != 6
    }
    fn sets_dir(&self) -> bool {
        self.provider != 3 && self.provider != 5 && self.provider != 6
    }
}

#[derive(Clone, Debug)]
pub struct Plan {
    pub requests: Vec<Request>,
    /// gate id -> step at which the simulator opens it (None: never)
    pub gates: Vec<Option<u64>>,
    pub policy: Policy,
}

impl Plan {
    pub fn to_json(&self, schedule: &[u64]) -> Value {
        json!({
            "requests": self.requests.iter().map(|r| json!({
                "cookie": r.cookie, "accept": r.accept, "in_order": r.in_order, "start_at": r.start_at, "drop_after_chunks": r.drop_after_chunks,
                "provider": r.provider, "under_suspense": r.under_suspense, "eager": r.eager.map(|(k, g)| json!([k, g])), "manual": r.manual, "lazy_set": r.lazy_set.map(|l| LOCS[l % LOCS.len()]), "eager_build": r.eager_build, "eager_yield": r.eager_yield, "outer_context": r.outer_context,
                "page": r.page.iter().map(|n| n.to_json()).collect::<Vec<_>>(),
            })).collect::<Vec<_>>(),
            "gates": self.gates, "policy": self.policy.name(), "schedule": schedule,
        })
    }
    pub fn from_json(v: &Value) -> Option<Plan> {
        let requests = v["requests"]
            .as_array()?
            .iter()
            .map(|r| Request {
                cookie: r["cookie"].as_str().unwrap_or("").to_string(),
                accept: r["accept"].as_str().unwrap_or("").to_string(),
                in_order: r["in_order"].as_bool().unwrap_or(false),
                start_at: r["start_at"].as_u64().unwrap_or(0),
                drop_after_chunks: r["drop_after_chunks"].as_u64().map(|n| n as usize),
                page: r["page"].as_array().map(|a| a.iter().filter_map(Node::from_json).collect()).unwrap_or_default(),
                provider: r["provider"].as_u64().unwrap_or(0) as u8,
                under_suspense: r["under_suspense"].as_bool().unwrap_or(false),
                eager: r["eager"].as_array().map(|a| (a[0].as_u64().unwrap_or(0) as usize, a[1].as_u64().unwrap_or(0) as usize)),
                manual: r["manual"].as_bool().unwrap_or(false),
                lazy_set: LOCS.iter().position(|k| Some(*k) == r["lazy_set"].as_str()),
                eager_build: r["eager_build"].as_u64().map(|k| k as usize),
                eager_yield: r["eager_yield"].as_bool().unwrap_or(false),
                outer_context: r["outer_context"].as_bool().unwrap_or(false),
            })
            .collect();
        let gates = v["gates"].as_array().map(|a| a.iter().map(|g| g.as_u64()).collect()).unwrap_or_default();
        let schedule: Vec<u64> = v["schedule"].as_array().map(|a| a.iter().filter_map(|x| x.as_u64()).collect()).unwrap_or_default();
        Some(Plan { requests, gates, policy: Policy::Recorded(schedule) })
    }
}

pub fn generate(rng: &mut Rng) -> Plan {
    let n_req = *rng.pick(&[1usize, 1, 2, 2, 3]);
    let n_gates = rng.below(LOCS.len());
    let gates: Vec<Option<u64>> = (0..n_gates).map(|_| if rng.chance(1, 10) { None } else { Some(rng.below(60) as u64) }).collect();
    let mut requests = vec![];
    for _ in 0..n_req {
        // concurrent requests carry different cookies so that leakage between them is visible
        let provider = if rng.chance(1, 2) { 0 } else { rng.below(7) as u8 };
        let cname = if provider == 2 && rng.chance(3, 4) { "site_locale" } else { "i18n_pref_locale" };
        let cookie = match rng.below(4) {
            0 => String::new(),
            _ => format!("{cname}={}", rng.pick(&["en", "fr", "fr-CA", "de", "pt-br", "zh", "zh-Hant", "ar", "pt-BR", "xx"])),
        };
        let accept = rng.pick(&["", "fr", "de,en;q=0.5", "pt-BR", "fr-CA,fr;q=0.9", "es", "zh-Hant-TW", "zh-CN", "ar-EG,en;q=0.5", "es-ES,es,pt-PT,pt,it,nl,sv,da,pl,cs,fr-FR,fr,en"]).to_string();
        let n_nodes = 1 + rng.below(7);
        let mut page = vec![];
        for _ in 0..n_nodes {
            let node = match rng.below(10) {
                0 => Node::Set { l: rng.below(LOCS.len()) },
                1 | 2 => Node::Sub {
                    init: if rng.chance(2, 3) { Some(rng.below(LOCS.len())) } else { None },
                    keys: (0..1 + rng.below(2)).map(|_| rng.below(KEYS.len())).collect(),
                    inner: if rng.chance(1, 3) { Some((if rng.chance(1, 3) { Some(rng.below(LOCS.len())) } else { None }, vec![rng.below(KEYS.len())])) } else { None },
                    lazy: rng.chance(1, 3),
                    outer_key: if rng.chance(1, 4) { Some(rng.below(KEYS.len())) } else { None },
                },
                5 if rng.chance(1, 2) => Node::Td { l: rng.below(LOCS.len()), key: *rng.pick(TD_KEYS) },
                3 | 4 if n_gates > 0 => Node::Suspense { gate: rng.below(n_gates), key: rng.below(KEYS.len()) },
                _ => Node::Text { key: rng.below(KEYS.len()) },
            };
            page.push(node);
        }
        requests.push(Request {
            cookie,
            accept,
            in_order: rng.chance(1, 4),
            start_at: if rng.chance(1, 2) { 0 } else { rng.below(20) as u64 },
            drop_after_chunks: if rng.chance(1, 12) { Some(rng.below(3)) } else { None },
            page,
            provider,
            under_suspense: rng.chance(1, 6),
            eager: if n_gates > 0 && rng.chance(1, 4) { Some((rng.below(EAGER_KEYS.len()), rng.below(n_gates))) } else { None },
            manual: false,
            lazy_set: None,
            eager_build: None,
            eager_yield: rng.chance(1, 3),
            outer_context: rng.chance(1, 6),
        });
        if rng.chance(1, 5) {
            requests.last_mut().unwrap().eager_build = Some(rng.below(EAGER_KEYS.len()));
        }
        if rng.chance(1, 6) {
            // a locale change made while rendering: the run-once access is left out (whether its single read comes
            // before or after that change is Leptos' business, not the property's)
            let r = requests.last_mut().unwrap();
            r.lazy_set = Some(rng.below(LOCS.len()));
            r.eager = None;
        }
        if rng.chance(1, 5) {
            // hand-written integration: synchronous rendering, so no Suspense in the page
            let r = requests.last_mut().unwrap();
            r.manual = true;
            r.under_suspense = false;
            r.eager = None;
            r.drop_after_chunks = None;
            r.page.retain(|n| !matches!(n, Node::Suspense { .. }));
            if r.page.is_empty() {
                r.page.push(Node::Text { key: rng.below(KEYS.len()) });
            }
        }
    }
    let policy = match rng.below(6) {
        0 => Policy::Fifo,
        1 => Policy::Lifo,
        2 => Policy::Pct { seed: rng.next_u64(), change_at: (0..rng.below(4)).map(|_| rng.below(80) as u64).collect() },
        _ => Policy::Random,
    };
    Plan { requests, gates, policy }
}

// ------------------------------------------------------------------ the simulated HTTP response

pub struct SimResponse {
    stream: PinnedStream<String>,
}

impl ExtendResponse for SimResponse {
    type ResponseOptions = ();
    fn from_stream(stream: impl futures::Stream<Item = String> + Send + 'static) -> Self {
        SimResponse { stream: Box::pin(stream) }
    }
    fn extend_response(&mut self, _opt: &()) {}
    fn set_default_content_type(&mut self, _content_type: &str) {}
}

#[derive(Default)]
struct ResponseState {
    chunks: Vec<String>,
    complete: bool,
    dropped: bool,
    set_cookies: Vec<(String, String)>,
}

fn page_view(r: Request, gates: Vec<Gate>, set_cookies: Arc<Mutex<ResponseState>>) -> impl IntoView {
    let Request { page, cookie, accept, provider, under_suspense, eager, lazy_set, eager_build, eager_yield, outer_context, .. } = r;
    if outer_context {
        // documented alternative to the provider component; here both are present, the provider below shadows it
        let a = accept.clone();
        let opts = leptos_i18n::context::I18nContextOptions::<Locale>::default().enable_cookie(false).ssr_lang_header_getter(UseLocalesOptions::default().ssr_lang_header_getter(move || Some(a.clone())));
        provide_context(leptos_i18n::context::init_i18n_context_with_options(opts));
    }
    let copts = {
        let sc = set_cookies.clone();
        CookieOptions::<Locale>::default().ssr_cookies_header_getter(move || Some(cookie.clone())).ssr_set_cookie(move |c| {
            sc.lock().unwrap().set_cookies.push((c.name().to_string(), c.value().to_string()));
        })
    };
    let accept2 = accept.clone();
    let lopts = UseLocalesOptions::default().ssr_lang_header_getter(move || Some(accept.clone()));
    let sub_lopts = std::sync::Arc::new(move || {
        let a = accept2.clone();
        UseLocalesOptions::default().ssr_lang_header_getter(move || Some(a.clone()))
    });
    let gates2 = gates.clone();
    let children = move || {
        let mut out: Vec<AnyView> = vec![];
        if let Some(l) = lazy_set {
            let i18n = use_i18n();
            out.push(
                (move || {
                    i18n.set_locale(loc(l));
                    view! { <span data-lazy="1"></span> }
                })
                .into_any(),
            );
        }
        for (n, node) in page.iter().enumerate() {
            // every node looks its context up when it is constructed, as a component would
            let i18n = use_i18n();
            match node {
                Node::Text { key } => out.push(text_node(i18n, *key, n)),
                Node::Set { l } => {
                    // what the router's view wrapper does while rendering a localized route
                    i18n.set_locale(loc(*l));
                }
                Node::Td { l, key } => out.push(td_node(*l, *key, n)),
                Node::Sub { init, keys, inner, lazy, outer_key } => {
                    let lazy = *lazy;
                    let outer_key = *outer_key;
                    let keys = keys.clone();
                    let inner = inner.clone();
                    let base = (n + 1) * 1000;
                    let inner_lopts = sub_lopts.clone();
                    let children = move || {
                        let sub = use_i18n();
                        let mut v: Vec<AnyView> = keys.iter().enumerate().map(|(j, k)| text_node(sub, *k, base + j + 1)).collect();
                        if let Some(k) = outer_key {
                            // the page's own context, used below a provider of another one
                            v.push(text_node(i18n, k, base + 800));
                        }
                        if lazy {
                            let k = keys[0];
                            v.push(
                                (move || {
                                    let found = use_i18n();
                                    text_node(found, k, base + 900)
                                })
                                .into_any(),
                            );
                        }
                        if let Some((iinit, ikeys)) = inner.clone() {
                            // a sub-context nested in a sub-context: its parent is the enclosing sub-context
                            let inner_children = move || {
                                let isub = use_i18n();
                                ikeys.iter().enumerate().map(|(j, k)| text_node(isub, *k, base + 500 + j + 1)).collect::<Vec<_>>()
                            };
                            match iinit {
                                Some(l) => {
                                    let l = loc(l);
                                    v.push(view! { <I18nSubContextProvider initial_locale=Signal::derive(move || l) ssr_lang_header_getter=inner_lopts()>{inner_children()}</I18nSubContextProvider> }.into_any())
                                }
                                None => v.push(view! { <I18nSubContextProvider ssr_lang_header_getter=inner_lopts()>{inner_children()}</I18nSubContextProvider> }.into_any()),
                            }
                        }
                        v
                    };
                    match init {
                        Some(l) => {
                            let l = loc(*l);
                            out.push(view! { <I18nSubContextProvider initial_locale=Signal::derive(move || l) ssr_lang_header_getter=sub_lopts()>{children()}</I18nSubContextProvider> }.into_any())
                        }
                        None => out.push(view! { <I18nSubContextProvider ssr_lang_header_getter=sub_lopts()>{children()}</I18nSubContextProvider> }.into_any()),
                    }
                }
                Node::Suspense { gate, key } => {
                    let g = gates.get(*gate).cloned().unwrap_or_default();
                    let key = *key;
                    out.push(
                        view! {
                            <Suspense fallback=move || view! { <span class="fallback">"..."</span> }>
                                {Suspend::new({
                                    let g = g.clone();
                                    async move {
                                        g.wait().await;
                                        text_node(i18n, key, n)
                                    }
                                })}
                            </Suspense>
                        }
                        .into_any(),
                    );
                }
            }
        }
        if let Some(k) = eager_build {
            // read while the page is built: the server holds every table, so the accessor's future is ready at once
            use futures::FutureExt;
            let i18n = use_i18n();
            let label = match k % EAGER_KEYS.len() {
                0 => t_string!(i18n, common.bye, name = "E").now_or_never().map(|s| s.to_string()),
                1 => t_string!(i18n, common.app.version, v = 3).now_or_never().map(|s| s.to_string()),
                _ => t_string!(i18n, side_bar.entry, n = 9).now_or_never().map(|s| s.to_string()),
            }
            .unwrap_or_else(|| "<pending>".to_string());
            out.push(view! { <p data-b="1" title=label>"b"</p> }.into_any());
        }
        if let Some((k, g)) = eager {
            // a translation read exactly once, inside a future, before the future waits for its data
            let gate = gates2.get(g).cloned().unwrap_or_default();
            let fut = Suspend::new(async move {
                let i18n = use_i18n();
                if eager_yield {
                    // not ready when the page is first walked: the read happens at the future's second poll
                    YieldOnce(false).await;
                }
                let label = match k % EAGER_KEYS.len() {
                    0 => t_string!(i18n, common.bye, name = "E").await.to_string(),
                    1 => t_string!(i18n, common.app.version, v = 3).await.to_string(),
                    _ => t_string!(i18n, side_bar.entry, n = 9).await.to_string(),
                };
                gate.wait().await;
                view! { <p data-e="1" title=label>"e"</p> }
            });
            if under_suspense {
                out.push(fut.into_any());
            } else {
                out.push(view! { <Suspense fallback=move || view! { <span class="fallback">"..."</span> }>{fut}</Suspense> }.into_any());
            }
        }
        out
    };
    let provider_view = match provider {
        1 => view! { <I18nContextProvider enable_cookie=false cookie_options=copts ssr_lang_header_getter=lopts>{children()}</I18nContextProvider> }.into_any(),
        2 => view! { <I18nContextProvider cookie_name="site_locale" cookie_options=copts ssr_lang_header_getter=lopts>{children()}</I18nContextProvider> }.into_any(),
        3 => view! { <I18nContextProvider set_dir_attr_on_html=false cookie_options=copts ssr_lang_header_getter=lopts>{children()}</I18nContextProvider> }.into_any(),
        4 => view! { <I18nContextProvider set_lang_attr_on_html=false cookie_options=copts ssr_lang_header_getter=lopts>{children()}</I18nContextProvider> }.into_any(),
        5 => view! { <I18nContextProvider enable_cookie=true set_dir_attr_on_html=false cookie_options=copts ssr_lang_header_getter=lopts>{children()}</I18nContextProvider> }.into_any(),
        6 => view! { <I18nContextProvider set_lang_attr_on_html=false set_dir_attr_on_html=false cookie_options=copts ssr_lang_header_getter=lopts>{children()}</I18nContextProvider> }.into_any(),
        _ => view! { <I18nContextProvider cookie_options=copts ssr_lang_header_getter=lopts>{children()}</I18nContextProvider> }.into_any(),
    };
    if under_suspense {
        view! { <Suspense fallback=move || view! { <span class="fallback">"page..."</span> }>{provider_view}</Suspense> }.into_any()
    } else {
        provider_view
    }
}

fn shell(r: Request, gates: Vec<Gate>, st: Arc<Mutex<ResponseState>>) -> impl IntoView {
    view! {
        <!DOCTYPE html>
        <html>
            <head>
                <meta charset="utf-8" />
                <MetaTags />
            </head>
            <body>{page_view(r, gates, st)}</body>
        </html>
    }
}

// ------------------------------------------------------------------ ground truth: the parser's tables

fn fixture_tables() -> BTreeMap<(String, String), Vec<String>> {
    use leptos_i18n_parser::parse_locales::{self, locale::BuildersKeys};
    let dir = std::path::PathBuf::from(env!("CARGO_MANIFEST_DIR"));
    let (keys, _, _) = parse_locales::parse_locales(true, Some(dir)).expect("fixture parses");
    let mut out = BTreeMap::new();
    match keys {
        BuildersKeys::NameSpaces { namespaces, .. } => {
            for ns in namespaces {
                for l in ns.locales {
                    out.insert((l.name.name.to_string(), ns.key.name.to_string()), l.strings.iter().map(|s| s.to_string()).collect());
                }
            }
        }
        BuildersKeys::Locales { .. } => panic!("fixture uses namespaces"),
    }
    out
}

thread_local! {
    static TABLES: BTreeMap<(String, String), Vec<String>> = fixture_tables();
}

// ------------------------------------------------------------------ browser side: script extraction and JS literal decoding

fn find_ci(hay: &str, needle: &str) -> Option<usize> {
    hay.to_ascii_lowercase().find(&needle.to_ascii_lowercase())
}

/// Content of the script element that assigns the embedded translations, cut where an HTML parser cuts it.
fn extract_script(html: &str) -> Option<String> {
    let marker = "window.__LEPTOS_I18N_TRANSLATIONS";
    let pos = html.find(marker)?;
    let open_end = html[..pos].rfind('>')? + 1;
    let rest = &html[open_end..];
    let end = find_ci(rest, "</script").unwrap_or(rest.len());
    Some(rest[..end].to_string())
}

struct Js<'a> {
    s: &'a [u8],
    i: usize,
}

impl<'a> Js<'a> {
    fn ws(&mut self) {
        while self.i < self.s.len() && (self.s[self.i] as char).is_ascii_whitespace() {
            self.i += 1;
        }
    }
    fn eat(&mut self, c: u8) -> Result<(), String> {
        self.ws();
        if self.s.get(self.i) == Some(&c) {
            self.i += 1;
            Ok(())
        } else {
            Err(format!("expected {:?} at byte {}, found {:?}", c as char, self.i, self.s.get(self.i).map(|b| *b as char)))
        }
    }
    fn value(&mut self) -> Result<Value, String> {
        self.ws();
        match self.s.get(self.i) {
            Some(b'[') => {
                self.i += 1;
                let mut out = vec![];
                loop {
                    self.ws();
                    if self.s.get(self.i) == Some(&b']') {
                        self.i += 1;
                        return Ok(Value::Array(out));
                    }
                    if !out.is_empty() {
                        self.eat(b',')?;
                    }
                    out.push(self.value()?);
                }
            }
            Some(b'{') => {
                self.i += 1;
                let mut out = serde_json::Map::new();
                loop {
                    self.ws();
                    if self.s.get(self.i) == Some(&b'}') {
                        self.i += 1;
                        return Ok(Value::Object(out));
                    }
                    if !out.is_empty() {
                        self.eat(b',')?;
                    }
                    self.ws();
                    let k = self.string()?;
                    self.eat(b':')?;
                    let v = self.value()?;
                    out.insert(k, v);
                }
            }
            Some(b'"') | Some(b'\'') => Ok(Value::String(self.string()?)),
            Some(b'n') if self.s[self.i..].starts_with(b"null") => {
                self.i += 4;
                Ok(Value::Null)
            }
            other => Err(format!("unexpected {:?} at byte {}", other.map(|b| *b as char), self.i)),
        }
    }
    /// A JavaScript string literal (either quote), with every JS escape; raw line terminators are a syntax error.
    fn string(&mut self) -> Result<String, String> {
        let q = *self.s.get(self.i).ok_or("eof")?;
        if q != b'"' && q != b'\'' {
            return Err(format!("expected a string at byte {}", self.i));
        }
        self.i += 1;
        let mut out: Vec<u8> = vec![];
        loop {
            let Some(&c) = self.s.get(self.i) else { return Err("unterminated string literal".into()) };
            self.i += 1;
            match c {
                c if c == q => return String::from_utf8(out).map_err(|e| e.to_string()),
                b'\n' | b'\r' => return Err("raw line terminator inside a string literal".into()),
                b'\\' => {
                    let Some(&e) = self.s.get(self.i) else { return Err("dangling backslash".into()) };
                    self.i += 1;
                    let ch: Option<char> = match e {
                        b'n' => Some('\n'),
                        b'r' => Some('\r'),
                        b't' => Some('\t'),
                        b'b' => Some('\u{8}'),
                        b'f' => Some('\u{c}'),
                        b'v' => Some('\u{b}'),
                        // sloppy-mode inline script: `\0` not followed by a digit is NUL, otherwise a legacy octal escape
                        // (Annex B): up to three octal digits, value <= 0o377; `\8` and `\9` are identity escapes
                        b'0'..=b'7' => {
                            let mut v = (e - b'0') as u32;
                            let max_digits = if e <= b'3' { 3 } else { 2 };
                            let mut n = 1;
                            while n < max_digits {
                                match self.s.get(self.i) {
                                    Some(d @ b'0'..=b'7') => {
                                        v = v * 8 + (*d - b'0') as u32;
                                        self.i += 1;
                                        n += 1;
                                    }
                                    _ => break,
                                }
                            }
                            char::from_u32(v)
                        }
                        b'x' => {
                            let h = std::str::from_utf8(self.s.get(self.i..self.i + 2).ok_or("short \\x")?).map_err(|e| e.to_string())?;
                            self.i += 2;
                            char::from_u32(u32::from_str_radix(h, 16).map_err(|e| e.to_string())?)
                        }
                        b'u' => {
                            let cp = if self.s.get(self.i) == Some(&b'{') {
                                let end = self.s[self.i..].iter().position(|b| *b == b'}').ok_or("unterminated \\u{")? + self.i;
                                let h = std::str::from_utf8(&self.s[self.i + 1..end]).map_err(|e| e.to_string())?;
                                self.i = end + 1;
                                u32::from_str_radix(h, 16).map_err(|e| e.to_string())?
                            } else {
                                let h = std::str::from_utf8(self.s.get(self.i..self.i + 4).ok_or("short \\u")?).map_err(|e| e.to_string())?;
                                self.i += 4;
                                let mut cp = u32::from_str_radix(h, 16).map_err(|e| e.to_string())?;
                                if (0xD800..0xDC00).contains(&cp) && self.s.get(self.i..self.i + 2) == Some(b"\\u") {
                                    let h2 = std::str::from_utf8(self.s.get(self.i + 2..self.i + 6).ok_or("short surrogate")?).map_err(|e| e.to_string())?;
                                    let lo = u32::from_str_radix(h2, 16).map_err(|e| e.to_string())?;
                                    if (0xDC00..0xE000).contains(&lo) {
                                        self.i += 6;
                                        cp = 0x10000 + ((cp - 0xD800) << 10) + (lo - 0xDC00);
                                    }
                                }
                                cp
                            };
                            char::from_u32(cp)
                        }
                        b'\n' => None, // line continuation
                        other => Some(other as char), // \" \' \\ \/ and identity escapes
                    };
                    if let Some(ch) = ch {
                        let mut buf = [0u8; 4];
                        out.extend_from_slice(ch.encode_utf8(&mut buf).as_bytes());
                    }
                }
                // U+2028 / U+2029 are allowed raw inside string literals since ES2019
                other => out.push(other),
            }
        }
    }
}

fn decode_script(script: &str) -> Result<Value, String> {
    let s = script.trim();
    let rest = s.strip_prefix("window.__LEPTOS_I18N_TRANSLATIONS").ok_or("script does not start with the assignment")?;
    let rest = rest.trim_start().strip_prefix('=').ok_or("missing =")?;
    let mut js = Js { s: rest.as_bytes(), i: 0 };
    let v = js.value()?;
    js.ws();
    if js.s.get(js.i) == Some(&b';') {
        js.i += 1;
    }
    js.ws();
    if js.i != js.s.len() {
        return Err(format!("trailing content after the literal at byte {}: {:?}", js.i, String::from_utf8_lossy(&js.s[js.i..js.s.len().min(js.i + 40)])));
    }
    Ok(v)
}

fn node_text(html: &str, n: usize) -> Option<String> {
    let marker = format!("data-n=\"{n}\"");
    let pos = html.rfind(&marker)?;
    let start = html[pos..].find('>')? + pos + 1;
    let end = html[start..].find("</p>")? + start;
    let inner = &html[start..end];
    // strip comment markers
    let mut out = String::new();
    let mut rest = inner;
    loop {
        match rest.find("<!--") {
            Some(i) => {
                out.push_str(&rest[..i]);
                match rest[i..].find("-->") {
                    Some(j) => rest = &rest[i + j + 3..],
                    None => break,
                }
            }
            None => {
                out.push_str(rest);
                break;
            }
        }
    }
    Some(decode_entities(&out.replace("<!>", "")))
}

// ------------------------------------------------------------------ model of one request

fn cookie_locale(header: &str, name: &str) -> Option<usize> {
    let mut found = None;
    for part in header.split(';') {
        if let Some((n, v)) = part.split_once('=') {
            if n.trim() == name {
                found = LOCS.iter().position(|l| *l == v.trim());
            }
        }
    }
    found
}

fn resolve(r: &Request) -> usize {
    let (cookie, accept) = (r.cookie.as_str(), r.accept.as_str());
    if r.enable_cookie() {
        if let Some(l) = cookie_locale(cookie, r.cookie_name()) {
            return l;
        }
    }
    if let Some(l) = crate::common::audited_best_match(accept) {
        return l;
    }
    let list: Vec<String> = accept.split(',').map(|e| e.split(';').next().unwrap_or("").trim().to_string()).filter(|e| !e.is_empty()).collect();
    loc_index(<Locale as leptos_i18n::Locale>::find_locale(&list))
}

struct Expect {
    main_locale: usize,
    /// the main context's locale when construction of the page ended (before anything is rendered)
    build_locale: usize,
    /// units rendered synchronously inside the provider: must be embedded
    must: BTreeSet<(String, String)>,
    /// units touched only inside a suspended subtree: may be embedded
    may: BTreeSet<(String, String)>,
    /// (data-n, expected text, suspended)
    texts: Vec<(usize, String, bool)>,
}

fn expect(r: &Request) -> Expect {
    let initial = resolve(r);
    // every `Set` node runs while the page is being constructed, before anything is rendered; a lazily built first child
    // sets its locale when rendering starts, before any text of the main context is produced
    let main_locale = r.lazy_set.map(|l| l % LOCS.len()).unwrap_or_else(|| r.page.iter().rev().find_map(|n| if let Node::Set { l } = n { Some(*l % LOCS.len()) } else { None }).unwrap_or(initial));
    let mut must = BTreeSet::new();
    let mut may = BTreeSet::new();
    let mut texts = vec![];
    let mut current = initial;
    for (n, node) in r.page.iter().enumerate() {
        match node {
            Node::Set { l } => current = *l % LOCS.len(),
            Node::Text { key } => {
                read_unit(&mut must, &mut may, *key, LOCS[main_locale]);
                texts.push((n, expected_text(*key, LOCS[main_locale]), false));
            }
            Node::Td { l, key } => {
                // the named locale's unit, whatever locale the contexts around the call hold
                let l = *l % LOCS.len();
                read_unit(&mut must, &mut may, *key, LOCS[l]);
                texts.push((n, expected_text(*key, LOCS[l]), false));
            }
            Node::Sub { init, keys, inner, lazy, outer_key } => {
                if *lazy {
                    // looked up at render time: still the sub-context of the provider it is written in
                    let l = init.map(|l| l % LOCS.len()).unwrap_or(current);
                    read_unit(&mut must, &mut may, keys[0], LOCS[l]);
                    texts.push(((n + 1) * 1000 + 900, expected_text(keys[0], LOCS[l]), false));
                }
                if let Some(k) = outer_key {
                    // read through the page's context: its locale, not the sub-context's
                    read_unit(&mut must, &mut may, *k, LOCS[main_locale]);
                    texts.push(((n + 1) * 1000 + 800, expected_text(*k, LOCS[main_locale]), false));
                }
                // created during construction: explicit initial locale, else the parent's locale at that moment
                let l = init.map(|l| l % LOCS.len()).unwrap_or(current);
                for (j, key) in keys.iter().enumerate() {
                    read_unit(&mut must, &mut may, *key, LOCS[l]);
                    texts.push(((n + 1) * 1000 + j + 1, expected_text(*key, LOCS[l]), false));
                }
                if let Some((iinit, ikeys)) = inner {
                    // the nested sub-context's parent is the enclosing sub-context, not the page's main context
                    let il = iinit.map(|l| l % LOCS.len()).unwrap_or(l);
                    for (j, key) in ikeys.iter().enumerate() {
                        read_unit(&mut must, &mut may, *key, LOCS[il]);
                        texts.push(((n + 1) * 1000 + 500 + j + 1, expected_text(*key, LOCS[il]), false));
                    }
                }
            }
            Node::Suspense { key, .. } => {
                may.insert(unit_of(*key, LOCS[main_locale]));
                may.insert((LOCS[main_locale].to_string(), KEYS[*key % KEYS.len()].0.to_string()));
                texts.push((n, expected_text(*key, LOCS[main_locale]), true));
            }
        }
    }
    if let Some(k) = r.eager_build {
        // read while the page is built, after every `Set` node ran
        must.insert((LOCS[current].to_string(), EAGER_KEYS[k % EAGER_KEYS.len()].0.to_string()));
    }
    let build_locale = current;
    if let Some((k, _)) = r.eager {
        let unit = (LOCS[main_locale].to_string(), EAGER_KEYS[k % EAGER_KEYS.len()].0.to_string());
        if r.eager_yield && !r.under_suspense {
            // read at the future's second poll: the shell (and the script in it) may already be on its way
            may.insert(unit);
        } else {
            // read at the future's first poll, which happens while the page is first walked; or the whole provider
            // waits under a Suspense boundary and renders, script included, once everything in it is ready
            must.insert(unit);
        }
    }
    Expect { main_locale, build_locale, must, may, texts }
}

// ------------------------------------------------------------------ execution

pub fn handle(req: &Value) -> Value {
    let (plan, mut rng) = if let Some(p) = req.get("plan") {
        match Plan::from_json(p) {
            Some(plan) => (plan, Rng::new(0)),
            None => return json!({"harness_error": "bad server plan"}),
        }
    } else {
        let mut rng = Rng::for_run(req["seed"].as_u64().unwrap_or(0), req["run"].as_u64().unwrap_or(0));
        let plan = generate(&mut rng);
        (plan, rng)
    };
    exec::reset();
    let gates: Vec<Gate> = plan.gates.iter().map(|_| Gate::default()).collect();
    let states: Vec<Arc<Mutex<ResponseState>>> = plan.requests.iter().map(|_| Arc::new(Mutex::new(ResponseState::default()))).collect();
    let mut sched = Scheduler::new(plan.policy.clone());
    let mut started = vec![false; plan.requests.len()];
    let mut opened = vec![false; plan.gates.len()];
    let mut probes: BTreeMap<String, u64> = BTreeMap::new();
    let mut step: u64 = 0;
    let cap: u64 = 600;
    let mut overlap = false;
    loop {
        for (i, r) in plan.requests.iter().enumerate() {
            if !started[i] && r.start_at <= step {
                started[i] = true;
                if (0..plan.requests.len()).any(|j| j != i && started[j] && !states[j].lock().unwrap().complete && !states[j].lock().unwrap().dropped) {
                    overlap = true;
                }
                exec::set_label(&format!("request{i}"));
                let st = states[i].clone();
                let (req, gs, in_order, drop_after) = (r.clone(), gates.clone(), r.in_order, r.drop_after_chunks);
                // one task per request: root owner creation, app construction and the first poll of the stream happen
                // inside `from_app` without yielding in between, exactly as in the server integrations
                if r.manual {
                    let req = r.clone();
                    any_spawner::Executor::spawn_local(async move {
                        use hydration_context::{SharedContext, SsrSharedContext};
                        let shared = Arc::new(SsrSharedContext::new()) as Arc<dyn SharedContext + Send + Sync>;
                        let owner = Owner::new_root(Some(shared));
                        let (meta, _meta_output) = ServerMetaContext::new();
                        let st_app = st.clone();
                        let gs = vec![];
                        // step 1: build the page
                        let view = owner.with(|| {
                            provide_context(meta);
                            page_view(req, gs, st_app).into_any()
                        });
                        // other tasks (other requests) may run here
                        YieldOnce(false).await;
                        // step 2: render it
                        let html = owner.with(|| view.to_html());
                        let mut s = st.lock().unwrap();
                        s.chunks.push(html);
                        s.complete = true;
                        drop(s);
                        owner.unset();
                    });
                    continue;
                }
                any_spawner::Executor::spawn_local(async move {
                    let (meta, meta_output) = ServerMetaContext::new();
                    let st_app = st.clone();
                    let app_fn = move || shell(req, gs, st_app);
                    let additional = move || provide_context(meta);
                    let res = if in_order {
                        SimResponse::from_app(app_fn, meta_output, additional, (), |app, chunks| Box::pin(async move { Box::pin(app.to_html_stream_in_order().chain(chunks())) as PinnedStream<String> })).await
                    } else {
                        SimResponse::from_app(app_fn, meta_output, additional, (), |app, chunks| Box::pin(async move { Box::pin(app.to_html_stream_out_of_order().chain(chunks())) as PinnedStream<String> })).await
                    };
                    let mut stream = res.stream;
                    let mut n = 0usize;
                    loop {
                        if drop_after.is_some_and(|d| n >= d) {
                            // client disconnect: the integration drops the body stream
                            st.lock().unwrap().dropped = true;
                            break;
                        }
                        match stream.next().await {
                            Some(chunk) => {
                                st.lock().unwrap().chunks.push(chunk);
                                n += 1;
                            }
                            None => {
                                st.lock().unwrap().complete = true;
                                break;
                            }
                        }
                    }
                    drop(stream);
                });
            }
        }
        for (g, at) in plan.gates.iter().enumerate() {
            if !opened[g] && at.is_some_and(|a| a <= step) {
                opened[g] = true;
                gates[g].open();
            }
        }
        if step >= cap {
            break;
        }
        let ready = exec::ready_ids();
        if ready.is_empty() {
            // nothing runnable: jump the logical clock to the next planned event, if any
            let next_start = plan.requests.iter().enumerate().filter(|(i, _)| !started[*i]).map(|(_, r)| r.start_at).min();
            let next_gate = plan.gates.iter().enumerate().filter(|(g, a)| !opened[*g] && a.is_some()).map(|(_, a)| a.unwrap()).min();
            match [next_start, next_gate].into_iter().flatten().min() {
                Some(t) if t > step => {
                    step = t;
                    continue;
                }
                Some(_) => continue,
                None => break,
            }
        }
        sched.steps(1, &mut rng, &last_panic);
        step += 1;
    }
    let panics = exec::take_panics();

    // ---- judge
    let mut violations: Vec<Violation> = vec![];
    for (id, born, msg) in &panics {
        let prop = "C17";
        violations.push(Violation { property: prop, invariant: "no_panic", signature: format!("a task of {born} panicked while rendering"), detail: format!("task {id}: {msg}") });
    }
    let mut responses = vec![];
    for (i, r) in plan.requests.iter().enumerate() {
        let st = states[i].lock().unwrap();
        let html: String = st.chunks.concat();
        let exp = expect(r);
        let mut info = json!({"request": i, "complete": st.complete, "dropped": st.dropped, "chunks": st.chunks.len(), "bytes": html.len(), "expected_main_locale": LOCS[exp.main_locale]});
        if st.dropped {
            *probes.entry("fault_client_disconnect".into()).or_default() += 1;
        }
        if !st.complete {
            *probes.entry(if st.dropped { "response_dropped".into() } else { "response_stalled_on_a_gate_never_opened".to_string() }).or_default() += 1;
            responses.push(info);
            continue;
        }
        *probes.entry("response_complete".into()).or_default() += 1;
        // ---- C17: the embedded script
        match extract_script(&html) {
            None => violations.push(Violation { property: "C17", invariant: "script_present", signature: "a complete response has no embedded translations script".into(), detail: format!("request {i}") }),
            Some(script) => match decode_script(&script) {
                Err(e) => {
                    violations.push(Violation {
                        property: "C17",
                        invariant: "script_parses",
                        signature: "the embedded translations are not a valid script (as cut by the HTML parser and read by a JS parser)".into(),
                        detail: format!("request {i}: {e}; script head {:?}", script.chars().take(160).collect::<String>()),
                    });
                }
                Ok(val) => {
                    let mut seen: BTreeSet<(String, String)> = BTreeSet::new();
                    for unit in val.as_array().cloned().unwrap_or_default() {
                        let l = unit["locale"].as_str().unwrap_or("").to_string();
                        let id = unit["id"].as_str().unwrap_or("").to_string();
                        let values: Vec<String> = unit["values"].as_array().map(|a| a.iter().map(|v| v.as_str().unwrap_or("\u{0}not a string").to_string()).collect()).unwrap_or_default();
                        let key = (l.clone(), id.clone());
                        if !seen.insert(key.clone()) {
                            violations.push(Violation { property: "C17", invariant: "script_units", signature: "a unit is listed twice".into(), detail: format!("request {i}: {key:?}") });
                        }
                        let table = TABLES.with(|t| t.get(&key).cloned());
                        match table {
                            None => violations.push(Violation { property: "C17", invariant: "script_units", signature: "the script lists a unit that does not exist".into(), detail: format!("request {i}: {key:?}") }),
                            Some(t) if t != values => {
                                let first = t.iter().zip(values.iter()).position(|(a, b)| a != b);
                                violations.push(Violation {
                                    property: "C17",
                                    invariant: "script_values",
                                    signature: "a unit's decoded strings differ from the server's table".into(),
                                    detail: format!("request {i}: unit {key:?}: {} decoded vs {} in the table, first difference at {first:?}: {:?} vs {:?}", values.len(), t.len(), first.and_then(|f| values.get(f)), first.and_then(|f| t.get(f))),
                                });
                            }
                            Some(_) => *probes.entry("unit_values_equal".into()).or_default() += 1,
                        }
                        if !exp.must.contains(&key) && !exp.may.contains(&key) {
                            violations.push(Violation {
                                property: "C17",
                                invariant: "script_units",
                                signature: "the script lists a unit the request did not use".into(),
                                detail: format!("request {i}: {key:?}; used {:?} (+ suspended {:?}); other requests in flight: {}", exp.must, exp.may, plan.requests.len() - 1),
                            });
                        }
                        if exp.may.contains(&key) && !exp.must.contains(&key) {
                            *probes.entry("suspended_unit_embedded".into()).or_default() += 1;
                        }
                    }
                    for k in &exp.must {
                        if !seen.contains(k) {
                            violations.push(Violation { property: "C17", invariant: "script_units", signature: "a unit used by the request is missing from the script".into(), detail: format!("request {i}: {k:?} not in {seen:?}") });
                        }
                    }
                    for k in exp.may.iter().filter(|k| !exp.must.contains(*k) && !seen.contains(*k)) {
                        let _ = k;
                        *probes.entry("late_unit_not_embedded".into()).or_default() += 1;
                    }
                    info["units"] = json!(seen.iter().map(|(l, n)| format!("{l}/{n}")).collect::<Vec<_>>());
                }
            },
        }
        // ---- render-time slice of C16: every text node shows the text of its context's locale
        for (n, want, suspended) in &exp.texts {
            match node_text(&html, *n) {
                Some(got) if &got == want => *probes.entry(if *suspended { "suspended_text_checked".into() } else { "text_checked".to_string() }).or_default() += 1,
                Some(got) => violations.push(Violation {
                    property: "C16",
                    invariant: "rendered_text",
                    signature: format!("a {}text node renders the text of another locale or key", if *suspended { "suspended " } else { "" }),
                    detail: format!("request {i} node {n}: got {got:?}, expected {want:?}"),
                }),
                None => violations.push(Violation { property: "C16", invariant: "rendered_text", signature: "a text node is missing from a complete response".into(), detail: format!("request {i} node {n}") }),
            }
        }
        // the run-once access: its text is in the page
        if let Some((k, _)) = r.eager {
            let want = format!("title=\"{}\"", EAGER_KEYS[k % EAGER_KEYS.len()].2.replace("{L}", LOCS[exp.main_locale]));
            if html.contains(&want) {
                *probes.entry("run_once_access_checked".into()).or_default() += 1;
            } else {
                violations.push(Violation { property: "C16", invariant: "rendered_text", signature: "a translation read once inside a future shows another locale or key".into(), detail: format!("request {i}: expected {want}") });
            }
        }
        if let Some(k) = r.eager_build {
            let want = format!("data-b=\"1\" title=\"{}\"", EAGER_KEYS[k % EAGER_KEYS.len()].2.replace("{L}", LOCS[exp.build_locale]));
            if html.contains(&want) || (!st.complete && !html.contains("data-b=")) {
                *probes.entry("build_time_access_checked".into()).or_default() += 1;
            } else {
                violations.push(Violation { property: "C16", invariant: "rendered_text", signature: "a translation read while the page is built shows another locale or key".into(), detail: format!("request {i}: expected {want}") });
            }
        }
        // <html lang dir>: the final main locale, when the provider is asked to set them (its defaults)
        if let (Some(p), false) = (html.find("<html"), r.under_suspense || r.manual) {
            let tag_end = html[p..].find('>').map(|e| e + p).unwrap_or(html.len());
            let tag = &html[p..tag_end];
            let want = format!("lang=\"{}\"", LOCS[exp.main_locale]);
            let has_set = r.lazy_set.is_some() || r.page.iter().any(|n| matches!(n, Node::Set { .. }));
            if r.sets_lang() {
                if tag.contains(&want) {
                    *probes.entry("html_lang_checked".into()).or_default() += 1;
                } else {
                    // without a render-time set the attribute shows the initial resolution (C15); otherwise the last locale set (C16)
                    violations.push(Violation {
                        property: if has_set { "C16" } else { "C15" },
                        invariant: "html_lang",
                        signature: if has_set { "<html lang> is not the last locale set while rendering".into() } else { "<html lang> is not the locale resolved from cookie / Accept-Language / default".into() },
                        detail: format!("request {i}: Cookie {:?} (provider variant {}), Accept-Language {:?}: {tag:?}, expected {want}", r.cookie, r.provider, r.accept),
                    });
                }
            } else if tag.contains("lang=") {
                violations.push(Violation { property: "C15", invariant: "html_lang", signature: "<html lang> is set although set_lang_attr_on_html=false".into(), detail: format!("request {i}: {tag:?}") });
            }
            let want_dir = format!("dir=\"{}\"", crate::fixture::dir_of(LOCS[exp.main_locale]));
            if r.sets_dir() && tag.contains("dir=") && !tag.contains(&want_dir) {
                violations.push(Violation {
                    property: if has_set { "C16" } else { "C15" },
                    invariant: "html_lang",
                    signature: "<html dir> is not the text direction of the page's locale".into(),
                    detail: format!("request {i}: {tag:?}, expected {want_dir} for {}", LOCS[exp.main_locale]),
                });
            }
            if r.sets_dir() != tag.contains("dir=") {
                violations.push(Violation {
                    property: "C15",
                    invariant: "provider_options",
                    signature: "the provider's set_dir_attr_on_html option is not honoured".into(),
                    detail: format!("request {i}: provider variant {}, {tag:?}", r.provider),
                });
            } else {
                *probes.entry("html_dir_checked".into()).or_default() += 1;
            }
        }
        responses.push(info);
    }
    if overlap {
        *probes.entry("requests_overlapped".into()).or_default() += 1;
    }
    let (spawned, _, polls) = exec::stats();
    exec::reset();
    json!({
        "plan": plan.to_json(&sched.trace),
        "violations": violations.iter().map(|v| json!({"property": v.property, "invariant": v.invariant, "signature": v.signature, "detail": v.detail})).collect::<Vec<_>>(),
        "interleaving": format!("{:016x}", simkit::fnv(format!("{:?}", sched.trace).as_bytes())),
        "stats": {
            "ops": plan.requests.iter().map(|r| r.page.len()).sum::<usize>(), "skipped_ops": 0, "polls": polls, "tasks_spawned": spawned,
            "choice_points": sched.choice_points, "probes": probes, "model_states": [], "requests": plan.requests.len(), "loads": 0, "policy": plan.policy.name(),
        },
        "responses": responses,
    })
}
