//! Seeded single-threaded task executor registered as any_spawner's custom executor.
//! Every `Effect`, `RenderEffect` re-run, isomorphic effect, resource and streaming chunk producer is a
//! task in this table; a task is polled only when the simulator's scheduler picks it.
use any_spawner::{CustomExecutor, PinnedFuture, PinnedLocalFuture};
use simkit::Rng;
use std::cell::RefCell;
use std::collections::BTreeMap;
use std::future::Future;
use std::pin::Pin;
use std::sync::atomic::{AtomicBool, Ordering};
use std::sync::Arc;
use std::task::{Context, Poll, Wake, Waker};

struct Flag(AtomicBool);

impl Wake for Flag {
    fn wake(self: Arc<Self>) {
        self.0.store(true, Ordering::SeqCst);
    }
    fn wake_by_ref(self: &Arc<Self>) {
        self.0.store(true, Ordering::SeqCst);
    }
}

struct Task {
    fut: Option<Pin<Box<dyn Future<Output = ()>>>>,
    ready: Arc<Flag>,
    /// label of the simulator operation during which the task was spawned
    born_in: String,
    polls: u64,
}

#[derive(Default)]
pub struct Table {
    tasks: BTreeMap<u64, Task>,
    next_id: u64,
    pub current_label: String,
    pub spawned: u64,
    pub completed: u64,
    pub polls: u64,
    pub panics: Vec<(u64, String, String)>,
}

thread_local! {
    static TABLE: RefCell<Table> = RefCell::new(Table::default());
}

struct SimExecutor;

fn add(fut: Pin<Box<dyn Future<Output = ()>>>) {
    TABLE.with(|t| {
        let mut t = t.borrow_mut();
        let id = t.next_id;
        t.next_id += 1;
        t.spawned += 1;
        let born_in = t.current_label.clone();
        t.tasks.insert(id, Task { fut: Some(fut), ready: Arc::new(Flag(AtomicBool::new(true))), born_in, polls: 0 });
    });
}

impl CustomExecutor for SimExecutor {
    fn spawn(&self, fut: PinnedFuture<()>) {
        add(fut);
    }
    fn spawn_local(&self, fut: PinnedLocalFuture<()>) {
        add(fut);
    }
    fn poll_local(&self) {}
}

pub fn install() {
    any_spawner::Executor::init_local_custom_executor(SimExecutor).expect("executor can be set once per process");
}

#[derive(Debug, Clone)]
pub enum Policy {
    Random,
    /// oldest ready task first
    Fifo,
    /// newest ready task first
    Lifo,
    /// random priorities per task id, with change points
    Pct { seed: u64, change_at: Vec<u64> },
    /// recorded task ids; falls back to the lowest ready id when a recorded choice is not ready
    Recorded(Vec<u64>),
}

impl Policy {
    pub fn name(&self) -> &'static str {
        match self {
            Policy::Random => "random",
            Policy::Fifo => "fifo",
            Policy::Lifo => "lifo",
            Policy::Pct { .. } => "pct",
            Policy::Recorded(_) => "recorded",
        }
    }
}

pub fn set_label(label: &str) {
    TABLE.with(|t| t.borrow_mut().current_label = label.to_string());
}

pub fn ready_ids() -> Vec<u64> {
    TABLE.with(|t| t.borrow().tasks.iter().filter(|(_, task)| task.fut.is_some() && task.ready.0.load(Ordering::SeqCst)).map(|(id, _)| *id).collect())
}

pub fn live_tasks() -> usize {
    TABLE.with(|t| t.borrow().tasks.len())
}

pub fn stats() -> (u64, u64, u64) {
    TABLE.with(|t| {
        let t = t.borrow();
        (t.spawned, t.completed, t.polls)
    })
}

pub fn take_panics() -> Vec<(u64, String, String)> {
    TABLE.with(|t| std::mem::take(&mut t.borrow_mut().panics))
}

/// Drop every task and reset counters (between runs). Futures are dropped outside the table borrow.
pub fn reset() {
    let old: Vec<Task> = TABLE.with(|t| {
        let mut t = t.borrow_mut();
        let old = std::mem::take(&mut t.tasks).into_values().collect();
        *t = Table::default();
        old
    });
    drop(old);
}

/// Poll one task. Returns false if the task does not exist or is not ready.
pub fn poll_task(id: u64, last_panic: &dyn Fn() -> String) -> bool {
    let taken = TABLE.with(|t| {
        let mut t = t.borrow_mut();
        match t.tasks.get_mut(&id) {
            Some(task) if task.fut.is_some() && task.ready.0.load(Ordering::SeqCst) => {
                task.ready.0.store(false, Ordering::SeqCst);
                task.polls += 1;
                let fut = task.fut.take();
                let flag = task.ready.clone();
                t.polls += 1;
                Some((fut.unwrap(), flag))
            }
            _ => None,
        }
    });
    let Some((mut fut, flag)) = taken else { return false };
    let waker = Waker::from(flag);
    let mut cx = Context::from_waker(&waker);
    let r = std::panic::catch_unwind(std::panic::AssertUnwindSafe(|| fut.as_mut().poll(&mut cx)));
    match r {
        Ok(Poll::Pending) => TABLE.with(|t| {
            if let Some(task) = t.borrow_mut().tasks.get_mut(&id) {
                task.fut = Some(fut);
            }
        }),
        Ok(Poll::Ready(())) => {
            TABLE.with(|t| {
                let mut t = t.borrow_mut();
                t.tasks.remove(&id);
                t.completed += 1;
            });
            drop(fut);
        }
        Err(_) => {
            let msg = last_panic();
            TABLE.with(|t| {
                let mut t = t.borrow_mut();
                let born = t.tasks.get(&id).map(|x| x.born_in.clone()).unwrap_or_default();
                t.tasks.remove(&id);
                t.panics.push((id, born, msg));
            });
            // a future that panicked is dropped without being polled again
            let _ = std::panic::catch_unwind(std::panic::AssertUnwindSafe(move || drop(fut)));
        }
    }
    true
}

pub struct Scheduler {
    pub policy: Policy,
    pub trace: Vec<u64>,
    pub choice_points: u64,
    cursor: usize,
    step: u64,
}

impl Scheduler {
    pub fn new(policy: Policy) -> Self {
        Scheduler { policy, trace: vec![], choice_points: 0, cursor: 0, step: 0 }
    }

    fn choose(&mut self, ready: &[u64], rng: &mut Rng) -> u64 {
        if ready.len() > 1 {
            self.choice_points += 1;
        }
        let c = match &self.policy {
            Policy::Random => ready[rng.below(ready.len())],
            Policy::Fifo => ready[0],
            Policy::Lifo => ready[ready.len() - 1],
            Policy::Pct { seed, change_at } => {
                let flips = change_at.iter().filter(|c| **c <= self.step).count() as u64;
                *ready.iter().max_by_key(|id| simkit::fnv(&[seed.to_le_bytes(), id.to_le_bytes(), flips.to_le_bytes()].concat())).unwrap()
            }
            Policy::Recorded(v) => {
                let want = v.get(self.cursor).copied();
                self.cursor += 1;
                match want {
                    Some(w) if ready.contains(&w) => w,
                    _ => ready[0],
                }
            }
        };
        self.step += 1;
        c
    }

    /// Poll up to `k` ready tasks; returns how many were polled.
    pub fn steps(&mut self, k: usize, rng: &mut Rng, last_panic: &dyn Fn() -> String) -> usize {
        let mut n = 0;
        for _ in 0..k {
            let ready = ready_ids();
            if ready.is_empty() {
                break;
            }
            let id = self.choose(&ready, rng);
            self.trace.push(id);
            poll_task(id, last_panic);
            n += 1;
        }
        n
    }

    /// Run to quiescence (no ready task), bounded. Returns (polls, reached quiescence).
    pub fn flush(&mut self, bound: usize, rng: &mut Rng, last_panic: &dyn Fn() -> String) -> (usize, bool) {
        let mut n = 0;
        while n < bound {
            if self.steps(1, rng, last_panic) == 0 {
                return (n, true);
            }
            n += 1;
        }
        (n, ready_ids().is_empty())
    }
}
