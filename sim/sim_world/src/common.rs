//! Pieces shared by the session and server drivers.
pub struct Violation {
    pub property: &'static str,
    pub invariant: &'static str,
    pub signature: String,
    pub detail: String,
}

thread_local! {
    pub static LAST_PANIC: std::cell::RefCell<String> = const { std::cell::RefCell::new(String::new()) };
}

pub fn last_panic() -> String {
    LAST_PANIC.with(|p| std::mem::take(&mut *p.borrow_mut()))
}

pub fn install_panic_hook() {
    std::panic::set_hook(Box::new(|info| {
        let msg = if let Some(s) = info.payload().downcast_ref::<&str>() {
            s.to_string()
        } else if let Some(s) = info.payload().downcast_ref::<String>() {
            s.clone()
        } else {
            "<non-string panic payload>".into()
        };
        let loc = info.location().map(|l| format!("{}:{}", l.file().replace("/repo/", ""), l.line())).unwrap_or_default();
        if std::env::var("VERIF_DEBUG").is_ok() {
            eprintln!("panic: {msg} @ {loc}\n{}", std::backtrace::Backtrace::force_capture());
        }
        LAST_PANIC.with(|p| *p.borrow_mut() = format!("{msg} @ {loc}"));
    }));
}

