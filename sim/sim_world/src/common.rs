//! Pieces shared by the session and server drivers.
pub struct Violation {
    pub property: &'static str,
    pub invariant: &'static str,
    pub signature: String,
    pub detail: String,
}

thread_local! {
    pub static LAST_PANIC: std::cell::RefCell<String> = const { std::cell::RefCell::new(String::new()) };
}

pub fn last_panic() -> String {
    LAST_PANIC.with(|p| std::mem::take(&mut *p.borrow_mut()))
}

pub fn install_panic_hook() {
    std::panic::set_hook(Box::new(|info| {
        let msg = if let Some(s) = info.payload().downcast_ref::<&str>() {
            s.to_string()
        } else if let Some(s) = info.payload().downcast_ref::<String>() {
            s.clone()
        } else {
            "<non-string panic payload>".into()
        };
        let loc = info.location().map(|l| format!("{}:{}", l.file().replace("/repo/", ""), l.line())).unwrap_or_default();
        if std::env::var("VERIF_DEBUG").is_ok() {
            eprintln!("panic: {msg} @ {loc}\n{}", std::backtrace::Backtrace::force_capture());
        }
        LAST_PANIC.with(|p| *p.borrow_mut() = format!("{msg} @ {loc}"));
    }));
}


/// Accept-Language headers whose best match among the fixture's locales is not a matter of taste: an entry equal to a
/// configured locale wins; otherwise the configured locale that is a less specific form of the entry, the most specific
/// such form first (`zh-Hant` before `zh` for `zh-Hant-TW`); entries are tried in the order listed; unparseable entries
/// are ignored; no match gives the default. Written by hand from those rules, independent of the library's matcher.
/// Headers not listed here (wildcards, empty elements, a more specific configured locale than the request) are judged
/// with the library's own `find_locale`, as C12 is not re-judged in this simulation.
pub const AUDITED_BEST_MATCH: &[(&str, &str)] = &[
    ("", "en"), ("fr", "fr"), ("de", "de"), ("en", "en"), ("pt-BR", "pt-br"), ("pt-br", "pt-br"), ("fr-CA", "fr-CA"),
    ("fr-CA,fr;q=0.9,en;q=0.8", "fr-CA"), ("es,fr;q=0.9", "fr"), ("es,it", "en"), ("de-AT,de;q=0.9", "de"),
    ("zz-ZZ,pt-BR;q=0.8", "pt-br"), ("en-US,en;q=0.9", "en"), ("fr-FR", "fr"), ("not a language,de", "de"), ("de;q=0.9;x=y", "de"),
    ("zh", "zh"), ("zh-Hant", "zh-Hant"), ("zh-Hant-TW", "zh-Hant"), ("zh-Hant-HK,zh;q=0.8", "zh-Hant"), ("zh-CN", "zh"),
    ("zh-Hans-CN,en;q=0.5", "zh"), ("es,zh-Hant-TW;q=0.7", "zh-Hant"), ("de,en;q=0.5", "de"), ("es", "en"),
    ("es-ES,es,pt-PT,pt,it,nl,sv,da,pl,cs,fr-FR,fr,en", "fr"), ("es,it,nl,sv,da,pl,cs,fi,nb,hu,ro,de-AT;q=0.1", "de"),
    // variant subtags: a configured locale without variants is a less specific form of the entry
    ("de-1996,fr", "de"), ("de-CH-1901", "de"), ("ca-ES-valencia,fr", "fr"), ("fr-CA-fonipa", "fr-CA"),
    ("ar", "ar"), ("ar-EG,en;q=0.5", "ar"), ("he,ar;q=0.3", "ar"),
    ("es, fr", "fr"), ("fr-CA, fr;q=0.9, en;q=0.8", "fr-CA"), ("it , de", "de"), ("es,\tpt-BR", "pt-br"),
];

pub fn audited_best_match(accept: &str) -> Option<usize> {
    let want = AUDITED_BEST_MATCH.iter().find(|(h, _)| *h == accept)?.1;
    crate::fixture::LOCS.iter().position(|l| *l == want)
}
