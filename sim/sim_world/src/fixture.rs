//! Fixture helpers: locale table, expected texts, type-erased handles over contexts and scoped views.
use crate::i18n::*;
use leptos::prelude::*;
use leptos_i18n::{I18nContext, Scope};

pub const LOCS: [&str; 8] = ["en", "fr", "fr-CA", "de", "pt-br", "zh", "zh-Hant", "ar"];

/// text direction of each fixture locale, written by hand (only `ar` is right-to-left)
pub fn dir_of(locale: &str) -> &'static str {
    if locale == "ar" {
        "rtl"
    } else {
        "ltr"
    }
}

pub fn loc(i: usize) -> Locale {
    match LOCS[i % LOCS.len()] {
        "en" => Locale::en,
        "fr" => Locale::fr,
        "fr-CA" => Locale::fr_CA,
        "de" => Locale::de,
        "pt-br" => Locale::pt_br,
        "zh" => Locale::zh,
        "zh-Hant" => Locale::zh_Hant,
        _ => Locale::ar,
    }
}

pub fn loc_index(l: Locale) -> usize {
    let s = leptos_i18n::Locale::as_str(l);
    LOCS.iter().position(|x| *x == s).expect("fixture locale")
}

/// Render a view to text: HTML with comment markers removed and entities decoded.
pub fn render<T: IntoView>(view: T) -> String {
    let html = view.into_view().to_html();
    let mut out = String::new();
    let mut rest = html.as_str();
    loop {
        if let Some(i) = rest.find("<!--") {
            out.push_str(&rest[..i]);
            match rest[i..].find("-->") {
                Some(j) => rest = &rest[i + j + 3..],
                None => break,
            }
        } else {
            out.push_str(rest);
            break;
        }
    }
    decode_entities(&out.replace("<!>", ""))
}

pub fn decode_entities(s: &str) -> String {
    let mut out = String::new();
    let mut rest = s;
    while let Some(i) = rest.find('&') {
        out.push_str(&rest[..i]);
        let tail = &rest[i..];
        let Some(end) = tail.find(';') else {
            out.push_str(tail);
            return out;
        };
        let ent = &tail[1..end];
        let ch = match ent {
            "amp" => Some('&'),
            "lt" => Some('<'),
            "gt" => Some('>'),
            "quot" => Some('"'),
            "apos" => Some('\''),
            _ => ent
                .strip_prefix("#x")
                .and_then(|h| u32::from_str_radix(h, 16).ok())
                .or_else(|| ent.strip_prefix('#').and_then(|d| d.parse().ok()))
                .and_then(char::from_u32),
        };
        match ch {
            Some(c) => {
                out.push(c);
                rest = &tail[end + 1..];
            }
            None => {
                out.push('&');
                rest = &tail[1..];
            }
        }
    }
    out.push_str(rest);
    out
}

#[cfg(not(feature = "world_dyn"))]
pub use handles::*;

#[cfg(not(feature = "world_dyn"))]
mod handles {
use super::*;

pub struct Reader {
    pub label: &'static str,
    /// expected text = `template` with `{L}` replaced by the locale name
    pub template: &'static str,
    /// tracked flavours (`t!`, `t_string!`, `t_display!`) must re-run a reactive computation built around them
    pub tracked: bool,
    pub read: std::rc::Rc<dyn Fn() -> String>,
}

impl Reader {
    /// `{L}` is the locale name; `{CARD0}` / `{ORD2}` the CLDR plural category of 0 (cardinal) / 2 (ordinal) in that
    /// locale, written by hand for the fixture's locales
    pub fn expected(&self, locale: &str) -> String {
        let card0 = match locale {
            "fr" | "fr-CA" | "pt-br" => "one",
            "ar" => "zero",
            _ => "other",
        };
        let ord2 = match locale {
            "en" => "two",
            _ => "other",
        };
        self.template.replace("{L}", locale).replace("{CARD0}", card0).replace("{ORD2}", ord2)
    }
}

pub struct ViewH {
    pub kind: &'static str,
    pub get: std::rc::Rc<dyn Fn() -> Locale>,
    pub get_untracked: Box<dyn Fn() -> Locale>,
    pub set: std::rc::Rc<dyn Fn(Locale)>,
    pub set_untracked: Box<dyn Fn(Locale)>,
    pub n_readers: usize,
    pub make_reader: Box<dyn Fn(usize) -> Reader>,
    pub n_scopes: usize,
    pub make_scope: Box<dyn Fn(usize) -> ViewH>,
}

fn base<S: Scope<Locale>>(
    ctx: I18nContext<Locale, S>,
) -> (std::rc::Rc<dyn Fn() -> Locale>, Box<dyn Fn() -> Locale>, std::rc::Rc<dyn Fn(Locale)>, Box<dyn Fn(Locale)>) {
    (
        std::rc::Rc::new(move || ctx.get_locale()),
        Box::new(move || ctx.get_locale_untracked()),
        std::rc::Rc::new(move |l| ctx.set_locale(l)),
        Box::new(move |l| ctx.set_locale_untracked(l)),
    )
}

macro_rules! reader {
    ($label:literal, $template:literal, $read:expr) => {
        Reader { label: $label, template: $template, tracked: !$label.rsplit(": ").next().unwrap_or("").starts_with("tu"), read: std::rc::Rc::new($read) }
    };
}

// Scoped context types are deep paths inside the generated module; each level's handle is therefore built
// by a macro expanded where the scoped value is created, so the type never has to be named.
macro_rules! handle_deep {
    ($ctx:expr) => {{
        let ctx = $ctx;
        let (get, get_untracked, set, set_untracked) = base(ctx);
        ViewH {
            kind: "common.app.deep",
            get,
            get_untracked,
            set,
            set_untracked,
            n_readers: 3,
            make_reader: Box::new(move |i| match i % 3 {
                0 => {
                    let f = t!(ctx, leaf);
                    reader!("deep: t!(leaf)", "app.deep.leaf[{L}]", move || render(f()))
                }
                1 => reader!("deep: t_string!(twig)", "app.deep.twig[{L}]", move || t_string!(ctx, twig).to_string()),
                _ => {
                    let f = tu!(ctx, twig);
                    reader!("deep: tu!(twig)", "app.deep.twig[{L}]", move || render(f()))
                }
            }),
            n_scopes: 0,
            make_scope: Box::new(move |_| unreachable!("deep has no scopes")),
        }
    }};
}

macro_rules! handle_app {
    ($ctx:expr) => {{
        let ctx = $ctx;
        let (get, get_untracked, set, set_untracked) = base(ctx);
        ViewH {
            kind: "common.app",
            get,
            get_untracked,
            set,
            set_untracked,
            n_readers: 4,
            make_reader: Box::new(move |i| match i % 4 {
                0 => {
                    let f = t!(ctx, name);
                    reader!("app: t!(name)", "app.name[{L}]", move || render(f()))
                }
                1 => reader!("app: t_string!(deep.leaf)", "app.deep.leaf[{L}]", move || t_string!(ctx, deep.leaf).to_string()),
                2 => {
                    let f = t!(ctx, version, v = "x");
                    reader!("app: t!(version, v)", "app.version[{L}] x", move || render(f()))
                }
                _ => reader!("app: t_display!(name)", "app.name[{L}]", move || t_display!(ctx, name).to_string()),
            }),
            n_scopes: 1,
            make_scope: Box::new(move |_| handle_deep!(scope_i18n!(ctx, deep))),
        }
    }};
}

macro_rules! handle_common {
    ($ctx:expr) => {{
        let ctx = $ctx;
        let (get, get_untracked, set, set_untracked) = base(ctx);
        ViewH {
            kind: "common",
            get,
            get_untracked,
            set,
            set_untracked,
            n_readers: 4,
            make_reader: Box::new(move |i| match i % 4 {
                0 => {
                    let f = t!(ctx, hello);
                    reader!("common: t!(hello)", "hello[{L}]", move || render(f()))
                }
                1 => reader!("common: t_string!(app.name)", "app.name[{L}]", move || t_string!(ctx, app.name).to_string()),
                2 => {
                    let f = t!(ctx, bye, name = "Cy");
                    reader!("common: t!(bye, name)", "bye[{L}] Cy", move || render(f()))
                }
                _ => reader!("common: tu_string!(hello)", "hello[{L}]", move || tu_string!(ctx, hello).to_string()),
            }),
            n_scopes: 2,
            make_scope: Box::new(move |i| match i % 2 {
                0 => handle_app!(scope_i18n!(ctx, app)),
                _ => handle_deep!(scope_i18n!(ctx, app.deep)),
            }),
        }
    }};
}

macro_rules! handle_home {
    ($ctx:expr) => {{
        let ctx = $ctx;
        let (get, get_untracked, set, set_untracked) = base(ctx);
        ViewH {
            kind: "home",
            get,
            get_untracked,
            set,
            set_untracked,
            n_readers: 3,
            make_reader: Box::new(move |i| match i % 3 {
                0 => {
                    let f = t!(ctx, title);
                    reader!("home: t!(title)", "title[{L}]", move || render(f()))
                }
                1 => reader!("home: t_string!(sub.line)", "sub.line[{L}]", move || t_string!(ctx, sub.line).to_string()),
                _ => {
                    let f = t!(ctx, lead, <b> = <b />);
                    reader!("home: t!(lead, <b>)", "<b>lead[{L}]</b> tail", move || render(f()))
                }
            }),
            n_scopes: 0,
            make_scope: Box::new(move |_| unreachable!("home has no scopes in the fixture handles")),
        }
    }};
}

/// A view over "the context a reactive region currently provides": every access looks the context up again.
pub fn view_cell(cur: std::rc::Rc<dyn Fn() -> I18nContext<Locale>>) -> ViewH {
    let (c1, c2, c3, c4, c5, c6) = (cur.clone(), cur.clone(), cur.clone(), cur.clone(), cur.clone(), cur);
    ViewH {
        kind: "root",
        get: std::rc::Rc::new(move || c1().get_locale()),
        get_untracked: Box::new(move || c2().get_locale_untracked()),
        set: std::rc::Rc::new(move |l| c3().set_locale(l)),
        set_untracked: Box::new(move |l| c4().set_locale_untracked(l)),
        n_readers: 16,
        make_reader: Box::new(move |i| (view_root(c5()).make_reader)(i)),
        n_scopes: 8,
        make_scope: Box::new(move |i| (view_root(c6()).make_scope)(i)),
    }
}

pub fn view_root(ctx: I18nContext<Locale>) -> ViewH {
    let (get, get_untracked, set, set_untracked) = base(ctx);
    ViewH {
        kind: "root",
        get,
        get_untracked,
        set,
        set_untracked,
        n_readers: 16,
        make_reader: Box::new(move |i| match i % 16 {
            0 => {
                let f = t!(ctx, common.hello);
                reader!("t!(common.hello)", "hello[{L}]", move || render(f()))
            }
            1 => {
                let f = tu!(ctx, common.hello);
                reader!("tu!(common.hello)", "hello[{L}]", move || render(f()))
            }
            2 => reader!("t_string!(common.hello)", "hello[{L}]", move || t_string!(ctx, common.hello).to_string()),
            3 => reader!("tu_string!(common.app.name)", "app.name[{L}]", move || tu_string!(ctx, common.app.name).to_string()),
            4 => reader!("t_display!(common.app.deep.leaf)", "app.deep.leaf[{L}]", move || t_display!(ctx, common.app.deep.leaf).to_string()),
            5 => {
                let f = t!(ctx, common.bye, name = "Bob");
                reader!("t!(common.bye, name)", "bye[{L}] Bob", move || render(f()))
            }
            6 => reader!("t_string!(common.bye, name)", "bye[{L}] Ann", move || t_string!(ctx, common.bye, name = "Ann").to_string()),
            7 => {
                let f = t!(ctx, home.title);
                reader!("t!(home.title)", "title[{L}]", move || render(f()))
            }
            8 => {
                let f = t!(ctx, home.sub.line);
                reader!("t!(home.sub.line)", "sub.line[{L}]", move || render(f()))
            }
            9 => {
                let f = t!(ctx, home.lead, <b> = <b />);
                reader!("t!(home.lead, <b>)", "<b>lead[{L}]</b> tail", move || render(f()))
            }
            10 => {
                let f = t!(ctx, common.app.version, v = 3);
                reader!("t!(common.app.version, v)", "app.version[{L}] 3", move || render(f()))
            }
            11 => reader!("tu_display!(home.title)", "title[{L}]", move || tu_display!(ctx, home.title).to_string()),
            14 => {
                use leptos_i18n::plurals::t_plural;
                let f = t_plural!(ctx, count = || 0, zero => "zero", one => "one", two => "two", few => "few", many => "many", _ => "other");
                reader!("t_plural!(count = 0)", "{CARD0}", move || f().to_string())
            }
            15 => {
                use leptos_i18n::plurals::t_plural_ordinal;
                let f = t_plural_ordinal!(ctx, count = || 2, zero => "zero", one => "one", two => "two", few => "few", many => "many", _ => "other");
                reader!("t_plural_ordinal!(count = 2)", "{ORD2}", move || f().to_string())
            }
            12 => reader!("td_string!(scope_locale!(common.app), name)", "app.name[{L}]", move || {
                let l = scope_locale!(ctx.get_locale(), common.app);
                td_string!(l, name).to_string()
            }),
            _ => reader!("td_display!(scope_locale!(home), sub.line)", "sub.line[{L}]", move || {
                let l = scope_locale!(ctx.get_locale(), home);
                td_display!(l, sub.line).to_string()
            }),
        }),
        n_scopes: 8,
        // 4..8: `use_i18n_scoped!` looks the context up itself; the caller runs this inside the owner that provides `ctx`
        make_scope: Box::new(move |i| match i % 8 {
            0 => handle_common!(scope_i18n!(ctx, common)),
            1 => handle_home!(scope_i18n!(ctx, home)),
            2 => handle_app!(scope_i18n!(ctx, common.app)),
            3 => handle_deep!(scope_i18n!(ctx, common.app.deep)),
            4 => handle_common!(use_i18n_scoped!(common)),
            5 => handle_home!(use_i18n_scoped!(home)),
            6 => handle_app!(use_i18n_scoped!(common.app)),
            _ => handle_deep!(use_i18n_scoped!(common.app.deep)),
        }),
    }
}

}
