//! C09 (storage/stream-fault slice): loading returns a result or a descriptive error under every
//! planned fault; never panics, aborts or hangs; transparent stream faults are transparent.
use crate::corpus::Project;
use crate::driver::{Opts, Violation};
use serde_json::{json, Value};
use simkit::Rng;
use std::collections::BTreeMap;

const STRUCT_OPS: &[&str] = &["missing", "empty", "dir", "unreadable", "dangling", "symlink_loop"];
const BYTE_OPS: &[&str] = &["truncate", "torn", "zero_tail", "dup_tail", "bitflip"];

fn weight(p: &Project) -> usize {
    // hand-written and test projects use more of the grammar than the hello-world examples
    if p.id.starts_with("corpus/") {
        6
    } else if p.id.starts_with("repo/tests") {
        4
    } else {
        1
    }
}

fn pick_project<'a>(projects: &'a [Project], rng: &mut Rng) -> &'a Project {
    let total: usize = projects.iter().map(weight).sum();
    let mut x = rng.below(total);
    for p in projects {
        let w = weight(p);
        if x < w {
            return p;
        }
        x -= w;
    }
    &projects[0]
}

fn byte_fault(p: &Project, rng: &mut Rng, op: &str, file: &str) -> Value {
    let len = p.files[file].len();
    let k = if rng.chance(1, 8) { rng.below(len.min(64) + 1) } else { rng.below(len + 1) };
    match op {
        "torn" => {
            let others: Vec<&String> = p.files.keys().filter(|f| f.as_str() != file && f.as_str() != "Cargo.toml").collect();
            let other = if others.is_empty() { file.to_string() } else { (*rng.pick(&others)).clone() };
            let olen = p.files[&other].len();
            json!({"op": "torn", "file": file, "other": other, "k": rng.below(olen.max(1) + 1)})
        }
        "bitflip" => json!({"op": "bitflip", "file": file, "k": rng.below(len.max(1)), "b": rng.below(8)}),
        _ => json!({"op": op, "file": file, "k": k}),
    }
}

fn stream_plan(p: &Project, rng: &mut Rng) -> Value {
    if p.locale_files.is_empty() {
        // a project without any locale file (namespaces = []): nothing to stream
        return json!({"kind": "read", "project": p.id, "faults": [], "decoys": false, "codegen": true});
    }
    let lf = rng.pick(&p.locale_files);
    let len = p.files[&lf.rel].len();
    let n_chunks = rng.below(5);
    let chunks: Vec<usize> = (0..n_chunks).map(|_| if rng.chance(1, 2) { 1 + rng.below(4) } else { 1 + rng.below(97) }).collect();
    let n_eintr = if rng.chance(1, 2) { rng.below(6) } else { 0 };
    let eintr: Vec<usize> = (0..n_eintr).map(|_| rng.below(40)).collect();
    // swarm: which fault kinds are enabled in this run
    let mode = rng.below(4);
    let eio = if mode == 1 { Some(rng.below(len + 1)) } else { None };
    let eof = if mode == 2 { Some(rng.below(len + 1)) } else { None };
    json!({
        "kind": "stream", "project": p.id, "file": lf.rel,
        "plan": {"chunks": chunks, "eintr_calls": eintr, "eio_at": eio, "eof_at": eof,
                 "bufreader": rng.chance(3, 4), "bufcap": *rng.pick(&[1usize, 2, 3, 7, 64, 8192])}
    })
}

pub fn plan(projects: &[Project], opts: &Opts) -> Vec<Value> {
    let thorough = opts.tier == "thorough";
    let variant = !crate::corpus::VARIANT.is_empty();
    let mut cases = vec![];
    // ---- baselines: fault-free, with and without decoys
    for p in projects {
        cases.push(json!({"kind": "read", "project": p.id, "faults": [], "decoys": true, "codegen": true, "baseline": true}));
        cases.push(json!({"kind": "read", "project": p.id, "faults": [], "decoys": false, "codegen": true, "baseline": true}));
    }
    // ---- structural faults: every file x every operator, every ordered pair of locale files for swap/replace
    for p in projects {
        for file in p.files.keys() {
            for op in STRUCT_OPS {
                cases.push(json!({"kind": "read", "project": p.id, "faults": [{"op": op, "file": file}], "decoys": true, "codegen": true}));
            }
        }
        let lfs: Vec<&String> = p.locale_files.iter().map(|l| &l.rel).collect();
        for a in &lfs {
            for b in &lfs {
                if a != b {
                    cases.push(json!({"kind": "read", "project": p.id, "faults": [{"op": "replace", "file": a, "other": b}], "decoys": true, "codegen": true}));
                    if a < b {
                        cases.push(json!({"kind": "read", "project": p.id, "faults": [{"op": "swap", "file": a, "other": b}], "decoys": true, "codegen": true}));
                    }
                }
            }
            // the manifest overwritten by a locale file and vice versa
            cases.push(json!({"kind": "read", "project": p.id, "faults": [{"op": "replace", "file": "Cargo.toml", "other": a}], "decoys": true, "codegen": true}));
            cases.push(json!({"kind": "read", "project": p.id, "faults": [{"op": "replace", "file": a, "other": "Cargo.toml"}], "decoys": true, "codegen": true}));
            if crate::corpus::FORMAT == "yaml" {
                for b in &lfs {
                    cases.push(json!({"kind": "read", "project": p.id, "faults": [{"op": "second_ext", "file": a, "other": b}], "decoys": true, "codegen": true}));
                }
            }
        }
        cases.push(json!({"kind": "read", "project": p.id, "faults": [{"op": "locales_dir_missing", "file": ""}], "decoys": false, "codegen": true}));
        cases.push(json!({"kind": "read", "project": p.id, "faults": [{"op": "crlf", "file": "Cargo.toml"}], "decoys": false, "codegen": true}));
    }
    // ---- byte-level faults
    if thorough && !variant {
        // exhaustive offsets: every corpus project and the first 60 generated ones
        for p in projects.iter().filter(|p| !p.id.starts_with("gen/") || p.id.rsplit('/').next().and_then(|i| i.parse::<u32>().ok()).is_some_and(|i| i < 60)) {
            for (file, data) in &p.files {
                for k in 0..data.len() {
                    cases.push(json!({"kind": "read", "project": p.id, "faults": [{"op": "truncate", "file": file, "k": k}], "decoys": false, "codegen": true}));
                }
                let heavy = p.id.starts_with("corpus/") || p.id.starts_with("repo/tests");
                if heavy {
                    for k in 0..data.len() {
                        cases.push(json!({"kind": "read", "project": p.id, "faults": [{"op": "zero_tail", "file": file, "k": k}], "decoys": false, "codegen": false}));
                        cases.push(json!({"kind": "read", "project": p.id, "faults": [{"op": "dup_tail", "file": file, "k": k}], "decoys": false, "codegen": true}));
                    }
                    if p.id.starts_with("corpus/") {
                        for k in 0..data.len() {
                            for b in 0..8 {
                                cases.push(json!({"kind": "read", "project": p.id, "faults": [{"op": "bitflip", "file": file, "k": k, "b": b}], "decoys": false, "codegen": true}));
                            }
                        }
                    }
                }
            }
            // torn overwrite of every locale file by the next locale file, every offset
            let lfs: Vec<&String> = p.locale_files.iter().map(|l| &l.rel).collect();
            for (i, a) in lfs.iter().enumerate() {
                let b = lfs[(i + 1) % lfs.len()];
                if *a == b {
                    continue;
                }
                for k in 0..=p.files[b.as_str()].len() {
                    cases.push(json!({"kind": "read", "project": p.id, "faults": [{"op": "torn", "file": a, "other": b, "k": k}], "decoys": false, "codegen": true}));
                }
            }
        }
    }
    let n_byte = if variant { if thorough { 60_000 } else { 15_000 } } else if thorough { 400_000 } else { 90_000 };
    for i in 0..n_byte {
        let mut rng = Rng::for_run(opts.seed, i as u64);
        let p = pick_project(projects, &mut rng);
        let files: Vec<&String> = p.files.keys().collect();
        // swarm: per run, a subset of operators is enabled
        let mut ops: Vec<&str> = BYTE_OPS.iter().copied().filter(|_| rng.chance(2, 3)).collect();
        if ops.is_empty() {
            ops.push("truncate");
        }
        let n_faults = if rng.chance(1, 4) { 2 } else { 1 };
        let mut faults = vec![];
        for _ in 0..n_faults {
            let file = (*rng.pick(&files)).clone();
            let op = *rng.pick(&ops);
            faults.push(byte_fault(p, &mut rng, op, &file));
        }
        if rng.chance(1, 10) {
            let file = (*rng.pick(&files)).clone();
            faults.push(json!({"op": *rng.pick(STRUCT_OPS), "file": file}));
        }
        cases.push(json!({"kind": "read", "project": p.id, "faults": faults, "decoys": rng.chance(1, 2), "codegen": true}));
    }
    // ---- stream faults through the verif_de_locale seam
    let n_stream = if variant { 0 } else if thorough { 150_000 } else { 30_000 };
    for i in 0..n_stream {
        let mut rng = Rng::for_run(opts.seed ^ 0x5712EA, i as u64);
        let p = pick_project(projects, &mut rng);
        cases.push(stream_plan(p, &mut rng));
    }
    cases
}

fn norm_path(s: &str) -> String {
    s.replace("/./", "/")
}

fn touches(case: &Value, pred: impl Fn(&str, &str) -> bool) -> bool {
    case["faults"].as_array().is_some_and(|a| a.iter().any(|f| pred(f["op"].as_str().unwrap_or(""), f["file"].as_str().unwrap_or(""))))
}

pub fn judge(project: &Project, case: &Value, reply: &Value) -> Vec<Violation> {
    let mut out = vec![];
    if case["kind"] == "stream" {
        let f = &reply["faulty"];
        let r = &reply["reference"];
        let full = &reply["full"];
        for (name, st) in [("faulty", f), ("reference", r), ("full", full)] {
            if st["status"] == "panic" {
                out.push(Violation {
                    invariant: "no_panic".into(),
                    signature: format!("panic at {}", st["loc"].as_str().unwrap_or("")),
                    detail: format!("{name} reader: {}", st["msg"].as_str().unwrap_or("")),
                });
            }
        }
        if !out.is_empty() {
            return out;
        }
        let eio = reply["fired"]["eio"].as_u64().unwrap_or(0) > 0;
        let same = |a: &Value, b: &Value| a["status"] == b["status"] && a["digest"] == b["digest"] && (a["status"] != "err" || a["display"] == b["display"]);
        if !eio {
            if !same(f, r) {
                out.push(Violation {
                    invariant: "transparent_fault".into(),
                    signature: format!("short/interrupted reads changed the result ({} vs {})", f["status"], r["status"]),
                    detail: format!("faulty={f} reference={r}"),
                });
            }
        } else if f["status"] == "ok" && !same(f, full) {
            out.push(Violation {
                invariant: "io_error_not_wrong_data".into(),
                signature: "Ok after an I/O error with a value different from the fault-free one".into(),
                detail: format!("faulty={f} full={full}"),
            });
        }
        return out;
    }

    let faults = case["faults"].as_array().cloned().unwrap_or_default();
    let fired: Vec<bool> = reply["fired"].as_array().map(|a| a.iter().map(|b| b.as_bool().unwrap_or(false)).collect()).unwrap_or_default();
    let fired_faults: Vec<&Value> = faults.iter().zip(fired.iter()).filter(|(_, f)| **f).map(|(f, _)| f).collect();
    let manifest_faulted = fired_faults.iter().any(|f| f["file"] == "Cargo.toml" || f["other"] == "Cargo.toml" && f["op"] == "swap");
    let dir_faulted = fired_faults.iter().any(|f| f["op"] == "locales_dir_missing");
    // files whose content or presence was changed
    let mut touched: Vec<String> = vec![];
    for f in &fired_faults {
        touched.push(f["file"].as_str().unwrap_or("").to_string());
        if f["op"] == "swap" {
            touched.push(f["other"].as_str().unwrap_or("").to_string());
        }
        if f["op"] == "second_ext" {
            let rel = f["file"].as_str().unwrap_or("");
            let (stem, ext) = rel.rsplit_once('.').unwrap_or((rel, ""));
            touched.push(format!("{stem}.{}", if ext == "yaml" { "yml" } else { "yaml" }));
        }
    }

    // CRLF line endings in the manifest are the same manifest: the project loads as it does fault-free
    if fired_faults.iter().any(|f| f["op"] == "crlf") {
        for stage in ["parse", "build", "codegen"] {
            let st = &reply[stage];
            let must_be_ok = stage != "codegen" || crate::corpus::VARIANT.is_empty();
            if must_be_ok && st["status"] == "err" {
                out.push(Violation {
                    invariant: "transparent_fault".into(),
                    signature: format!("{stage}: CRLF line endings in the manifest turned a loadable project into an error"),
                    detail: st["display"].as_str().unwrap_or("").chars().take(300).collect(),
                });
                break;
            }
        }
    }
    for stage in ["parse", "build", "codegen"] {
        let st = &reply[stage];
        match st["status"].as_str().unwrap_or("") {
            "panic" => {
                let sig = format!("panic at {}", st["loc"].as_str().unwrap_or(""));
                if !out.iter().any(|v: &Violation| v.signature == sig) {
                    out.push(Violation {
                        invariant: "no_panic".into(),
                        signature: sig,
                        detail: format!("[{stage}] {}", st["msg"].as_str().unwrap_or("").chars().take(300).collect::<String>()),
                    });
                }
            }
            "err" => {
                let variant = st["variant"].as_str().unwrap_or("");
                let display = st["display"].as_str().unwrap_or("");
                if st["display_panicked"] == true || display.trim().is_empty() {
                    out.push(Violation {
                        invariant: "descriptive_error".into(),
                        signature: format!("{stage}:{variant}: empty or panicking Display"),
                        detail: display.to_string(),
                    });
                }
                // (other code-generator configurations may legitimately refuse a project, e.g. client-side dynamic loading
                // without a `translations-path`)
                if fired_faults.is_empty() && case["baseline"] == true && !(stage == "codegen" && !crate::corpus::VARIANT.is_empty()) {
                    // a corpus project must load fault-free; anything else is a corpus or harness problem, not a verdict
                    simkit::harness_error(&format!("corpus project {} does not load fault-free: {display}", project.id));
                }
                match variant {
                    "ManifestNotFound" | "ConfigNotPresent" | "ConfigFileDeser" | "DuplicateLocalesInConfig" | "DuplicateNamespacesInConfig" => {
                        if !manifest_faulted && case["adversarial"] != true {
                            out.push(Violation {
                                invariant: "error_names_file".into(),
                                signature: format!("{stage}:{variant} although the manifest was not faulted"),
                                detail: display.chars().take(300).collect(),
                            });
                        }
                    }
                    "LocaleFileDeser" | "LocaleFileNotFound" => {
                        // the error must blame a file that was actually touched (or any file when the manifest or
                        // the locales directory was faulted, since they decide which files are looked for); an
                        // adversarial project carries its odd value in a file from the start: no fault to blame
                        // (the bare build's code generator refuses any file that needs a plural / formatter feature,
                        // fault or not: that refusal is about the build, not about a fault)
                        let feature_refusal = stage == "codegen" && crate::corpus::VARIANT == "bare";
                        if !manifest_faulted && !dir_faulted && case["adversarial"] != true && !feature_refusal {
                            let raw_paths: Vec<String> = st["paths"].as_array().map(|a| a.iter().filter_map(|p| p.as_str().map(String::from)).collect()).unwrap_or_default();
                            let paths: Vec<String> = raw_paths.iter().map(|p| norm_path(p)).collect();
                            let blamed_touched = paths.iter().any(|p| {
                                touched.iter().any(|t| {
                                    let stem = t.rsplit_once('.').map(|(a, _)| a).unwrap_or(t);
                                    p.ends_with(&format!("/{t}")) || (variant == "LocaleFileNotFound" && p.contains(&format!("/{stem}.")))
                                })
                            });
                            if !blamed_touched {
                                out.push(Violation {
                                    invariant: "error_names_file".into(),
                                    signature: format!("{stage}:{variant} blames a file no fault touched"),
                                    detail: format!("blamed {paths:?}, touched {touched:?}"),
                                });
                            }
                            // "descriptive": the message names the file (its name at least; how the path is printed is free)
                            if !raw_paths.iter().all(|p| display.contains(p.rsplit('/').next().unwrap_or(p.as_str()))) {
                                out.push(Violation {
                                    invariant: "descriptive_error".into(),
                                    signature: format!("{stage}:{variant} message does not name the file"),
                                    detail: display.chars().take(300).collect(),
                                });
                            }
                        }
                    }
                    _ => {}
                }
            }
            _ => {}
        }
    }
    // the build-script API is the parser API: same verdict on the same directory
    let (p, b) = (&reply["parse"], &reply["build"]);
    if p["status"] != "panic" && b["status"] != "panic" && (p["status"] != b["status"] || p["variant"] != b["variant"]) {
        out.push(Violation {
            invariant: "api_agreement".into(),
            signature: "parse_locales and TranslationsInfos::parse_at_dir disagree".into(),
            detail: format!("parse={} {} build={} {}", p["status"], p["variant"], b["status"], b["variant"]),
        });
    }
    out
}

/// Evidence accounting; returns whether at least one fault fired.
pub fn account(case: &Value, reply: &Value, faults_fired: &mut BTreeMap<String, u64>, probes: &mut BTreeMap<String, u64>) -> bool {
    let mut any = false;
    if case["kind"] == "stream" {
        for k in ["short_read", "eintr", "eio", "early_eof"] {
            let n = reply["fired"][k].as_u64().unwrap_or(0);
            if n > 0 {
                *faults_fired.entry(format!("stream_{k}")).or_default() += n;
                any = true;
            }
        }
        *probes.entry(format!("stream_result_{}", reply["faulty"]["status"].as_str().unwrap_or(""))).or_default() += 1;
        if reply["fired"]["eio"].as_u64().unwrap_or(0) > 0 && reply["faulty"]["status"] == "ok" {
            *probes.entry("eio_after_complete_document".into()).or_default() += 1;
        }
        return any;
    }
    if case["adversarial"] == true {
        let st = &reply["parse"];
        let key = match st["status"].as_str().unwrap_or("") {
            "err" => format!("adversarial_rejected_{}", st["variant"].as_str().unwrap_or("")),
            s => format!("adversarial_{s}"),
        };
        *probes.entry(key).or_default() += 1;
        if reply["codegen"]["status"] == "ok" {
            *probes.entry("adversarial_accepted_and_generated".into()).or_default() += 1;
        }
        return true;
    }
    let faults = case["faults"].as_array().cloned().unwrap_or_default();
    for (f, fired) in faults.iter().zip(reply["fired"].as_array().cloned().unwrap_or_default()) {
        if fired.as_bool().unwrap_or(false) {
            any = true;
            *faults_fired.entry(f["op"].as_str().unwrap_or("").to_string()).or_default() += 1;
        } else {
            *probes.entry("fault_planned_but_no_effect".into()).or_default() += 1;
        }
    }
    for stage in ["parse", "codegen"] {
        let st = &reply[stage];
        let key = match st["status"].as_str().unwrap_or("") {
            "err" => format!("{stage}_err_{}", st["variant"].as_str().unwrap_or("")),
            s => format!("{stage}_{s}"),
        };
        *probes.entry(key).or_default() += 1;
    }
    if any && reply["parse"]["status"] == "ok" {
        *probes.entry("faulted_input_accepted_by_parser".into()).or_default() += 1;
        if reply["codegen"]["status"] == "ok" {
            *probes.entry("faulted_input_accepted_then_codegen_ok".into()).or_default() += 1;
        }
    }
    // side-invariant (C19's file-selection clause; recorded, not judged here): tracked files are designated files
    if let Some(tr) = reply["parse"]["detail"]["tracked"].as_array() {
        if tr.iter().any(|t| t.as_str().is_some_and(|t| t.ends_with(".bak") || t.ends_with('~') || t.contains("unlisted_locale"))) {
            *probes.entry("decoy_file_was_read".into()).or_default() += 1;
        }
    }
    any
}
