//! C11: acknowledged (Ok) export => every table file is durable, valid JSON, equal to the parser's
//! table and of the expected length; literal indices in the parsed trees point at their own text; the
//! tables baked into the generated code equal the exported ones.
use crate::corpus::Project;
use crate::driver::{Opts, Violation};
use serde_json::{json, Value};
use simkit::Rng;
use std::collections::{BTreeMap, BTreeSet};

const STRUCT_OPS: &[&str] = &[
    "nested_missing", "out_is_file", "parent_is_file", "long_name", "readonly_dir",
];
const PER_FILE_OPS: &[&str] = &["stale_longer", "stale_same_len", "stale_dir", "dev_full", "dangling_link", "link_loop"];

fn n_outputs(p: &Project) -> usize {
    p.locale_files.len()
}

fn total_bytes(p: &Project) -> usize {
    p.files.values().map(|v| v.len()).max().unwrap_or(0)
}

pub fn plan(projects: &[Project], opts: &Opts) -> Vec<Value> {
    let thorough = opts.tier == "thorough";
    let mut cases = vec![];
    for p in projects {
        if p.id.starts_with("gen/huge/") {
            // size is the point: exported once, fault-free, tables and indices compared; the code generator is not run
            cases.push(json!({"kind": "write", "project": p.id, "out_fault": {"op": "none"}, "codegen": false}));
            continue;
        }
        cases.push(json!({"kind": "write", "project": p.id, "out_fault": {"op": "none"}, "codegen": true}));
        if !crate::corpus::VARIANT.is_empty() {
            continue; // other code-generator configurations: only the generated-code oracles differ
        }
        for op in STRUCT_OPS {
            cases.push(json!({"kind": "write", "project": p.id, "out_fault": {"op": op}}));
        }
        for op in PER_FILE_OPS {
            for idx in 0..n_outputs(p) {
                cases.push(json!({"kind": "write", "project": p.id, "out_fault": {"op": op, "idx": idx}}));
            }
        }
        // RLIMIT_FSIZE = k: a short write followed by EFBIG inside the helper's buffered writer
        let max_k = total_bytes(p) + 64;
        if thorough {
            for k in 0..=max_k {
                cases.push(json!({"kind": "write", "project": p.id, "out_fault": {"op": "fsize", "k": k}}));
            }
        } else {
            let mut ks: BTreeSet<usize> = [0usize, 1, 2, 3, 7, 8, 15, 16, 63, 64, 255, 256, 1023, 1024, 4095, 4096, 8191, 8192, 8193].into_iter().filter(|k| *k <= max_k).collect();
            let mut rng = Rng::for_run(opts.seed, simkit::fnv(p.id.as_bytes()));
            for _ in 0..200 {
                ks.insert(rng.below(max_k + 1));
            }
            for k in ks {
                cases.push(json!({"kind": "write", "project": p.id, "out_fault": {"op": "fsize", "k": k}}));
            }
        }
    }
    cases
}

fn problem_kind(p: &str) -> &'static str {
    if p.contains("not readable") {
        "file missing or unreadable"
    } else if p.contains("not a JSON array") {
        if p.contains("invalid escape") || p.contains("control character") {
            "invalid JSON escaping"
        } else if p.contains("EOF") || p.contains("; 0 bytes") {
            "truncated or empty JSON"
        } else {
            "invalid JSON"
        }
    } else if p.contains("decodes to") {
        "decoded strings differ from the table"
    } else {
        "other"
    }
}

pub fn judge(case: &Value, reply: &Value) -> Vec<Violation> {
    let mut out = vec![];
    if reply.get("skipped").is_some() {
        return out;
    }
    let op = case["out_fault"]["op"].as_str().unwrap_or("none");
    for p in reply["table_problems"].as_array().cloned().unwrap_or_default() {
        let p = p.as_str().unwrap_or("").to_string();
        let kind = if p.contains("has index") {
            "literal index does not point at its own text"
        } else if p.contains("expects") || p.contains("count") {
            "string count differs from the table length"
        } else if p.contains("requests tables under other names") {
            "the generated client requests a table under a name that is not the exported one"
        } else if p.contains("declares a string table type") {
            "generated code expects a table size no locale has"
        } else if p.contains("baked") || p.contains("generated code") {
            "baked table differs from the parser table"
        } else {
            "tree invariant"
        };
        out.push(Violation { invariant: "table_index".into(), signature: kind.into(), detail: p });
        break;
    }
    if reply["result"]["status"] == "panic" && op == "none" {
        // no fault injected, a project the parser accepts: the tables must be exported, whatever their text
        out.push(Violation {
            invariant: "ack_durable".into(),
            signature: "write_to_dir panics fault-free: no table is exported for this text".into(),
            detail: format!("{} at {}", reply["result"]["msg"].as_str().unwrap_or(""), reply["result"]["loc"].as_str().unwrap_or("")),
        });
    }
    if reply["result"]["status"] == "ok" {
        if let Some(p) = reply["durable_problems"].as_array().and_then(|a| a.first()).and_then(|p| p.as_str()) {
            // escaping problems do not depend on the output fault: one class for all of them
            let class = if op == "none" || problem_kind(p) == "invalid JSON escaping" { "fault-free".to_string() } else { format!("under {op}") };
            out.push(Violation {
                invariant: "ack_durable".into(),
                signature: format!("Ok(()) {class} but {}", problem_kind(p)),
                detail: format!("{} of {} files bad; first: {p}", reply["durable_problems"].as_array().map(|a| a.len()).unwrap_or(0), reply["files"].as_array().map(|a| a.len()).unwrap_or(0)),
            });
        }
    }
    out
}

pub fn account(
    case: &Value,
    reply: &Value,
    faults_fired: &mut BTreeMap<String, u64>,
    probes: &mut BTreeMap<String, u64>,
    skipped: &mut BTreeSet<String>,
) -> bool {
    if let Some(s) = reply.get("skipped") {
        skipped.insert(format!("{}: {}", case["project"].as_str().unwrap_or(""), s.as_str().unwrap_or("")));
        return false;
    }
    let op = case["out_fault"]["op"].as_str().unwrap_or("none");
    let fired = reply["fired"].as_bool().unwrap_or(false);
    if fired && op != "none" {
        *faults_fired.entry(op.to_string()).or_default() += 1;
    } else if op != "none" {
        *probes.entry("fault_planned_but_no_effect".into()).or_default() += 1;
    }
    let status = reply["result"]["status"].as_str().unwrap_or("");
    *probes.entry(format!("write_{status}")).or_default() += 1;
    if status == "err" {
        *probes.entry(format!("write_err_{}", reply["result"]["kind"].as_str().unwrap_or(""))).or_default() += 1;
    }
    if status == "ok" && op != "none" {
        *probes.entry("ok_under_fault".into()).or_default() += 1;
    }
    *probes.entry("literals_checked".into()).or_default() += reply["literals_checked"].as_u64().unwrap_or(0);
    *probes.entry("files_compared".into()).or_default() += reply["files"].as_array().map(|a| a.len() as u64).unwrap_or(0);
    if let Some(n) = reply["baked"]["index_reads"].as_u64() {
        *probes.entry("generated_index_reads_checked".into()).or_default() += n;
        *probes.entry("baked_tables_compared".into()).or_default() += reply["baked"]["tables"].as_u64().unwrap_or(0);
    }
    if let Some(n) = reply["baked"]["endpoints_checked"].as_u64() {
        *probes.entry("generated_request_endpoints_checked".into()).or_default() += n;
    }
    if let Some(n) = reply["baked"]["table_types_checked"].as_u64() {
        *probes.entry("generated_table_types_checked".into()).or_default() += n;
    }
    // every write case is non-trivial: it compares real files with real tables
    true
}
