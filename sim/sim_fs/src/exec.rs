//! Worker side: materialise a project, apply the planned faults, run the real code, report what happened.
use crate::corpus::Project;
use leptos_i18n_build::{TranslationsInfos, TranslationsType};
use leptos_i18n_parser::parse_locales::{
    self,
    error::Error,
    locale::{BuildersKeys, BuildersKeysInner, Locale, LocaleSeed, LocaleValue},
    parsed_value::{Literal, ParsedValue},
    plurals::Plurals,
    ForeignKeysPaths,
};
use leptos_i18n_parser::utils::{Key, KeyPath};
use serde_json::{json, Value};
use simkit::fnv;
use std::collections::BTreeMap;
use std::io::Read;
use std::os::unix::fs::PermissionsExt;
use std::path::{Path, PathBuf};
use std::sync::Mutex;

// ------------------------------------------------------------------ panic capture

static LAST_PANIC: Mutex<Option<(String, String)>> = Mutex::new(None);

pub fn install_panic_hook() {
    std::panic::set_hook(Box::new(|info| {
        let msg = if let Some(s) = info.payload().downcast_ref::<&str>() {
            s.to_string()
        } else if let Some(s) = info.payload().downcast_ref::<String>() {
            s.clone()
        } else {
            "<non-string panic payload>".to_string()
        };
        let mut loc = info.location().map(|l| format!("{}:{}", l.file(), l.line())).unwrap_or_default();
        if !loc.starts_with("/repo/") {
            // the panic was raised inside std/core or a dependency (slice indexing, split_at, ...):
            // name the innermost frame that belongs to the code under test instead
            let bt = std::backtrace::Backtrace::force_capture().to_string();
            for line in bt.lines() {
                let l = line.trim();
                let Some((_, sym)) = l.split_once(": ") else { continue };
                if (sym.starts_with("leptos_i18n") || sym.starts_with("sim_fs::load_locales") || sym.starts_with("sim_fs::utils")
                    || sym.starts_with("<leptos_i18n") || sym.starts_with("<sim_fs::load_locales"))
                    && !sym.contains("UnwrapAt")
                {
                    let sym = sym.replace("sim_fs::load_locales", "leptos_i18n_macro::load_locales").replace("sim_fs::utils", "leptos_i18n_macro::utils");
                    loc = format!("fn {sym} (raised at {})", loc.rsplit('/').next().unwrap_or(""));
                    break;
                }
            }
        }
        *LAST_PANIC.lock().unwrap_or_else(|e| e.into_inner()) = Some((msg, loc));
    }));
}

fn take_panic() -> (String, String) {
    LAST_PANIC.lock().unwrap_or_else(|e| e.into_inner()).take().unwrap_or_default()
}

/// Run `f`, turning its outcome into a JSON stage report.
fn stage<T>(f: impl FnOnce() -> Result<T, Box<Error>>, describe: impl FnOnce(&T) -> Value) -> (Value, Option<T>) {
    let r = std::panic::catch_unwind(std::panic::AssertUnwindSafe(f));
    match r {
        Ok(Ok(v)) => {
            // `describe` calls further API of the value under test (get_locales, get_icu_keys, ...): same rules
            match std::panic::catch_unwind(std::panic::AssertUnwindSafe(|| describe(&v))) {
                Ok(d) => (json!({"status": "ok", "detail": d}), Some(v)),
                Err(_) => {
                    let (msg, loc) = take_panic();
                    (json!({"status": "panic", "msg": msg, "loc": norm_loc(&loc)}), None)
                }
            }
        }
        Ok(Err(e)) => (err_report(&e), None),
        Err(_) => {
            let (msg, loc) = take_panic();
            (json!({"status": "panic", "msg": msg, "loc": norm_loc(&loc)}), None)
        }
    }
}

fn norm_loc(loc: &str) -> String {
    // keep repository-relative locations stable
    loc.replace("/repo/", "")
}

fn err_report(e: &Error) -> Value {
    let dbg = format!("{e:?}");
    let variant: String = dbg.chars().take_while(|c| c.is_alphanumeric()).collect();
    let display = std::panic::catch_unwind(std::panic::AssertUnwindSafe(|| e.to_string()));
    let (display, display_panicked) = match display {
        Ok(s) => (s, false),
        Err(_) => (format!("<Display panicked: {:?}>", take_panic()), true),
    };
    let paths: Vec<String> = match e {
        Error::LocaleFileDeser { path, .. } => vec![path.to_string_lossy().to_string()],
        Error::LocaleFileNotFound(v) => v.iter().map(|(p, _)| p.to_string_lossy().to_string()).collect(),
        _ => vec![],
    };
    json!({"status": "err", "variant": variant, "display": display, "display_panicked": display_panicked, "paths": paths})
}

// ------------------------------------------------------------------ scratch directory

pub struct Scratch {
    pub root: PathBuf,
}

impl Scratch {
    pub fn new() -> Self {
        let base = if Path::new("/dev/shm").is_dir() { PathBuf::from("/dev/shm") } else { std::env::temp_dir() };
        let root = base.join(format!("simfs-{}", std::process::id()));
        force_remove(&root);
        std::fs::create_dir_all(&root).expect("scratch dir");
        Scratch { root }
    }
    pub fn case_dir(&self) -> PathBuf {
        self.root.join("p")
    }
    pub fn out_dir(&self) -> PathBuf {
        self.root.join("out")
    }
    pub fn reset(&self) {
        force_remove(&self.case_dir());
        force_remove(&self.out_dir());
        std::fs::create_dir_all(self.case_dir()).expect("case dir");
    }
}

impl Drop for Scratch {
    fn drop(&mut self) {
        force_remove(&self.root);
    }
}

pub fn force_remove(p: &Path) {
    fn fix(p: &Path) {
        if let Ok(md) = std::fs::symlink_metadata(p) {
            if md.is_dir() {
                let _ = std::fs::set_permissions(p, std::fs::Permissions::from_mode(0o755));
                if let Ok(rd) = std::fs::read_dir(p) {
                    for e in rd.flatten() {
                        fix(&e.path());
                    }
                }
            }
        }
    }
    if std::fs::symlink_metadata(p).is_ok() {
        fix(p);
        if std::fs::symlink_metadata(p).map(|m| m.is_dir()).unwrap_or(false) {
            let _ = std::fs::remove_dir_all(p);
        } else {
            let _ = std::fs::remove_file(p);
        }
    }
}

fn write_file(p: &Path, data: &[u8]) {
    if let Some(d) = p.parent() {
        std::fs::create_dir_all(d).expect("mkdir");
    }
    std::fs::write(p, data).expect("write case file");
}

/// Decoy files with invalid content that the configuration does not designate.
fn decoys(project: &Project) -> Vec<(String, Vec<u8>)> {
    let mut out = vec![];
    let bad: &[u8] = b"{ this is not a translation file \xff\xfe";
    for lf in &project.locale_files {
        out.push((format!("{}.bak", lf.rel), bad.to_vec()));
        out.push((format!("{}~", lf.rel), bad.to_vec()));
    }
    let other_ext = match crate::corpus::FORMAT {
        "json" => "yaml",
        "yaml" => "json",
        _ => "json",
    };
    if let Some(lf) = project.locale_files.first() {
        let stem = lf.rel.rsplit_once('.').map(|(a, _)| a).unwrap_or(&lf.rel);
        out.push((format!("{stem}.{other_ext}"), bad.to_vec()));
        out.push((format!("{}/unlisted_locale.{}", project.locales_dir, crate::corpus::exts()[0]), bad.to_vec()));
        out.push((format!("{}/README.md", project.locales_dir), b"# not a locale".to_vec()));
    }
    out
}

pub fn materialize(project: &Project, dir: &Path, with_decoys: bool) {
    for (rel, data) in &project.files {
        write_file(&dir.join(rel), data);
    }
    if with_decoys {
        for (rel, data) in decoys(project) {
            write_file(&dir.join(rel), &data);
        }
    }
}

// ------------------------------------------------------------------ read-side fault operators

fn content<'a>(project: &'a Project, rel: &str) -> &'a [u8] {
    project.files.get(rel).map(|v| v.as_slice()).unwrap_or(&[])
}

/// Applies one fault; returns whether it changed anything ("fired").
pub fn apply_fault(project: &Project, dir: &Path, f: &Value) -> bool {
    let op = f["op"].as_str().unwrap_or("");
    let rel = f["file"].as_str().unwrap_or("");
    let path = dir.join(rel);
    let orig = content(project, rel);
    let k = f["k"].as_u64().unwrap_or(0) as usize;
    match op {
        "truncate" => {
            if k >= orig.len() {
                return false;
            }
            write_file(&path, &orig[..k]);
            true
        }
        "torn" => {
            // new[..k] ++ old[k..]: an overwrite by `other` interrupted after k bytes
            let other = content(project, f["other"].as_str().unwrap_or(""));
            let kk = k.min(other.len());
            let mut v = other[..kk].to_vec();
            if kk < orig.len() {
                v.extend_from_slice(&orig[kk..]);
            }
            if v == orig {
                return false;
            }
            write_file(&path, &v);
            true
        }
        "zero_tail" => {
            if k >= orig.len() {
                return false;
            }
            let mut v = orig.to_vec();
            for b in &mut v[k..] {
                *b = 0;
            }
            write_file(&path, &v);
            true
        }
        "dup_tail" => {
            // a rewrite that appended instead of truncating first
            if k >= orig.len() {
                return false;
            }
            let mut v = orig.to_vec();
            v.extend_from_slice(&orig[k..]);
            write_file(&path, &v);
            true
        }
        "bitflip" => {
            if orig.is_empty() {
                return false;
            }
            let mut v = orig.to_vec();
            let i = k % v.len();
            v[i] ^= 1 << (f["b"].as_u64().unwrap_or(0) % 8);
            write_file(&path, &v);
            true
        }
        "crlf" => {
            // the file went through a checkout that converts line endings (core.autocrlf): same content for any parser
            if orig.windows(2).any(|w| w == b"\r\n") || !orig.contains(&b'\n') {
                return false;
            }
            let mut v = Vec::with_capacity(orig.len() + 64);
            for b in orig {
                if *b == b'\n' {
                    v.push(b'\r');
                }
                v.push(*b);
            }
            write_file(&path, &v);
            true
        }
        "missing" => std::fs::remove_file(&path).is_ok(),
        "empty" => {
            write_file(&path, b"");
            !orig.is_empty()
        }
        "dir" => {
            let _ = std::fs::remove_file(&path);
            std::fs::create_dir_all(&path).is_ok()
        }
        "unreadable" => {
            let _ = std::fs::set_permissions(&path, std::fs::Permissions::from_mode(0o000));
            // fired only if the mode is honoured for this process
            std::fs::File::open(&path).is_err()
        }
        "dangling" => {
            let _ = std::fs::remove_file(&path);
            std::os::unix::fs::symlink(dir.join("does/not/exist"), &path).is_ok()
        }
        "symlink_loop" => {
            let _ = std::fs::remove_file(&path);
            std::os::unix::fs::symlink(&path, &path).is_ok()
        }
        "swap" => {
            let other_rel = f["other"].as_str().unwrap_or("");
            let other = content(project, other_rel);
            if other == orig {
                return false;
            }
            write_file(&path, other);
            write_file(&dir.join(other_rel), orig);
            true
        }
        "replace" => {
            // lost rename: this file holds another file's content, the other one is untouched
            let other = content(project, f["other"].as_str().unwrap_or(""));
            if other == orig {
                return false;
            }
            write_file(&path, other);
            true
        }
        "locales_dir_missing" => {
            let p = dir.join(&project.locales_dir);
            force_remove(&p);
            true
        }
        "second_ext" => {
            // yaml only: both .yaml and .yml present; the second one holds `other`'s content
            let other = content(project, f["other"].as_str().unwrap_or(""));
            let (stem, ext) = rel.rsplit_once('.').unwrap_or((rel, ""));
            let alt = if ext == "yaml" { "yml" } else { "yaml" };
            write_file(&dir.join(format!("{stem}.{alt}")), other);
            true
        }
        _ => false,
    }
}

// ------------------------------------------------------------------ descriptions / digests

fn norm(s: &str, dir: &Path) -> String {
    s.replace(&*dir.to_string_lossy(), "<DIR>")
}

fn describe_keys(keys: &BuildersKeys, warnings: usize, tracked: &[String], dir: &Path) -> Value {
    let dbg = format!("{keys:?}");
    let tracked: Vec<String> = tracked.iter().map(|p| norm(p, dir)).collect();
    json!({"digest": format!("{:016x}", fnv(dbg.as_bytes())), "warnings": warnings, "tracked": tracked})
}

// ------------------------------------------------------------------ code generator (source-included macro modules)

pub fn run_codegen(dir: &Path) -> (Value, Option<proc_macro2::TokenStream>) {
    std::env::set_var("CARGO_MANIFEST_DIR", dir);
    stage(
        || crate::load_locales::load_locales(),
        |ts| {
            // tracked file paths carry the worker's scratch directory (pid): normalise before hashing
            let s = ts.to_string().replace(&*dir.to_string_lossy(), "<DIR>");
            json!({"digest": format!("{:016x}", fnv(s.as_bytes())), "len": s.len()})
        },
    )
}

// ------------------------------------------------------------------ read case

pub fn run_read_case(scratch: &Scratch, project: &Project, case: &Value) -> Value {
    scratch.reset();
    let dir = scratch.case_dir();
    materialize(project, &dir, case["decoys"].as_bool().unwrap_or(true));
    let mut fired = vec![];
    for f in case["faults"].as_array().cloned().unwrap_or_default() {
        fired.push(apply_fault(project, &dir, &f));
    }
    // 1. the parser API, as the build script calls it
    let (parse, parsed) = stage(
        || parse_locales::parse_locales(true, Some(dir.clone())),
        |(keys, _warnings, tracked)| describe_keys(keys, 0, tracked, &dir),
    );
    let warnings_n = parsed.map(|(_, w, _)| w.into_inner().len());
    // 2. the build-script API
    let (build, _) = stage(
        || TranslationsInfos::parse_at_dir(dir.clone()),
        |infos| {
            let locales: Vec<String> = infos.get_locales().map(|l| l.to_string()).collect();
            let nss: Option<Vec<String>> = infos.get_namespaces().map(|it| it.map(|n| n.to_string()).collect());
            let icu = infos.get_icu_keys().count();
            let mut tables = 0usize;
            match infos.get_translations() {
                TranslationsType::Namespace(nss) => {
                    for ns in nss {
                        for l in ns.into_locales() {
                            tables += l.translations_formatter().to_string().len().min(1);
                        }
                    }
                }
                TranslationsType::Locale(ls) => {
                    for l in ls {
                        tables += l.translations_formatter().to_string().len().min(1);
                    }
                }
            }
            let paths: Vec<String> = infos.files_paths().iter().map(|p| norm(p, &dir)).collect();
            json!({"locales": locales, "namespaces": nss, "icu_keys": icu, "tables": tables, "paths": paths})
        },
    );
    // 3. the code generator (it parses again with skip_icu_cfg = false, then generates)
    let (codegen, _) = if case["codegen"].as_bool().unwrap_or(true) { run_codegen(&dir) } else { (json!({"status": "skipped"}), None) };
    let reply = json!({"fired": fired, "parse": parse, "warnings": warnings_n, "build": build, "codegen": codegen});
    // scratch paths carry the worker's pid: normalise so that logs and replays are identical across runs
    let text = reply.to_string().replace(&*dir.to_string_lossy(), "<DIR>");
    serde_json::from_str(&text).unwrap_or(reply)
}

/// Become an unprivileged user (when started as root) so that file modes are honoured by the kernel.
pub fn drop_privileges(scratch_root: &Path) -> bool {
    unsafe {
        if libc::geteuid() != 0 {
            return false;
        }
        let c = std::ffi::CString::new(scratch_root.to_string_lossy().as_bytes()).unwrap();
        if libc::chown(c.as_ptr(), 65534, 65534) != 0 {
            return false;
        }
        if libc::setgroups(0, std::ptr::null()) != 0 || libc::setgid(65534) != 0 || libc::setuid(65534) != 0 {
            return false;
        }
        true
    }
}

// ------------------------------------------------------------------ stream case (hook: verif_de_locale)

pub struct FaultyReader<'a> {
    data: &'a [u8],
    pos: usize,
    calls: usize,
    chunks: Vec<usize>,
    eintr_calls: Vec<usize>,
    eio_at: Option<usize>,
    eof_at: Option<usize>,
    pub n_short: u64,
    pub n_eintr: u64,
    pub n_eio: u64,
    pub n_eof: u64,
}

impl Read for FaultyReader<'_> {
    fn read(&mut self, buf: &mut [u8]) -> std::io::Result<usize> {
        let call = self.calls;
        self.calls += 1;
        if buf.is_empty() {
            return Ok(0);
        }
        if self.eintr_calls.contains(&call) {
            self.n_eintr += 1;
            return Err(std::io::Error::from(std::io::ErrorKind::Interrupted));
        }
        let mut end = self.data.len();
        if let Some(e) = self.eof_at {
            end = end.min(e);
        }
        if let Some(k) = self.eio_at {
            if self.pos >= k.min(end) && k <= end {
                self.n_eio += 1;
                return Err(std::io::Error::from_raw_os_error(libc::EIO));
            }
            end = end.min(k);
        }
        if self.pos >= end {
            if self.eof_at.is_some_and(|e| e < self.data.len()) {
                self.n_eof += 1;
            }
            return Ok(0);
        }
        let want = if self.chunks.is_empty() { buf.len() } else { self.chunks[call % self.chunks.len()].max(1) };
        let n = want.min(buf.len()).min(end - self.pos);
        if n < buf.len().min(end - self.pos) {
            self.n_short += 1;
        }
        buf[..n].copy_from_slice(&self.data[self.pos..self.pos + n]);
        self.pos += n;
        Ok(n)
    }
}

fn de_with<R: Read>(r: R, locale: &str, namespace: Option<&str>) -> Value {
    let fk = ForeignKeysPaths::new();
    let key = Key::new(locale).expect("locale key");
    let ns = namespace.map(|n| Key::new(n).expect("ns key"));
    let seed = LocaleSeed { name: key.clone(), top_locale_name: key, key_path: KeyPath::new(ns), foreign_keys_paths: &fk };
    let r = std::panic::catch_unwind(std::panic::AssertUnwindSafe(|| parse_locales::locale::verif_de_locale(r, seed)));
    match r {
        Ok(Ok(l)) => {
            let dbg = format!("{l:?} {fk:?}");
            json!({"status": "ok", "digest": format!("{:016x}", fnv(dbg.as_bytes()))})
        }
        Ok(Err(e)) => {
            let s = std::panic::catch_unwind(std::panic::AssertUnwindSafe(|| e.to_string())).unwrap_or_else(|_| "<Display panicked>".into());
            json!({"status": "err", "display": s})
        }
        Err(_) => {
            let (msg, loc) = take_panic();
            json!({"status": "panic", "msg": msg, "loc": norm_loc(&loc)})
        }
    }
}

pub fn run_stream_case(project: &Project, case: &Value) -> Value {
    let rel = case["file"].as_str().unwrap_or("");
    let Some(lf) = project.locale_files.iter().find(|l| l.rel == rel) else {
        return json!({"harness_error": format!("no locale file {rel}")});
    };
    let data = content(project, rel);
    let plan = &case["plan"];
    let usizes = |v: &Value| -> Vec<usize> { v.as_array().map(|a| a.iter().filter_map(|x| x.as_u64().map(|n| n as usize)).collect()).unwrap_or_default() };
    let eof_at = plan["eof_at"].as_u64().map(|n| n as usize);
    let eio_at = plan["eio_at"].as_u64().map(|n| n as usize);
    let mut fr = FaultyReader {
        data,
        pos: 0,
        calls: 0,
        chunks: usizes(&plan["chunks"]),
        eintr_calls: usizes(&plan["eintr_calls"]),
        eio_at,
        eof_at,
        n_short: 0,
        n_eintr: 0,
        n_eio: 0,
        n_eof: 0,
    };
    let faulty = if plan["bufreader"].as_bool().unwrap_or(true) {
        let cap = plan["bufcap"].as_u64().unwrap_or(8192).max(1) as usize;
        de_with(std::io::BufReader::with_capacity(cap, &mut fr), &lf.locale, lf.namespace.as_deref())
    } else {
        de_with(&mut fr, &lf.locale, lf.namespace.as_deref())
    };
    // reference: the same bytes (cut at eof_at) through a plain slice reader
    let cut = eof_at.unwrap_or(data.len()).min(data.len());
    let reference = de_with(&data[..cut], &lf.locale, lf.namespace.as_deref());
    let full = if cut == data.len() { reference.clone() } else { de_with(data, &lf.locale, lf.namespace.as_deref()) };
    json!({
        "faulty": faulty, "reference": reference, "full": full,
        "fired": {"short_read": fr.n_short, "eintr": fr.n_eintr, "eio": fr.n_eio, "early_eof": fr.n_eof},
        "calls": fr.calls,
    })
}

// ------------------------------------------------------------------ write case (C11)

fn set_fsize_limit(k: Option<u64>) {
    unsafe {
        let mut lim = libc::rlimit { rlim_cur: 0, rlim_max: 0 };
        libc::getrlimit(libc::RLIMIT_FSIZE, &mut lim);
        lim.rlim_cur = match k {
            Some(k) => k,
            None => lim.rlim_max,
        };
        libc::setrlimit(libc::RLIMIT_FSIZE, &lim);
    }
}

pub fn ignore_sigxfsz() {
    unsafe {
        libc::signal(libc::SIGXFSZ, libc::SIG_IGN);
    }
}

/// Every `Literal::String(s, i)` reachable from a value that the generated code reads.
fn collect_literals(v: &ParsedValue, out: &mut Vec<(String, usize)>, problems: &mut Vec<String>) {
    match v {
        ParsedValue::Literal(Literal::String(s, i)) => out.push((s.clone(), *i)),
        ParsedValue::Literal(_) | ParsedValue::Default | ParsedValue::Variable { .. } => {}
        ParsedValue::Component { inner, .. } => collect_literals(inner, out, problems),
        ParsedValue::Bloc(vs) => vs.iter().for_each(|v| collect_literals(v, out, problems)),
        ParsedValue::Ranges(r) => {
            let _ = r.try_for_each_value::<_, ()>(|v| {
                collect_literals(v, out, problems);
                Ok(())
            });
        }
        ParsedValue::Plurals(Plurals { forms, other, .. }) => {
            forms.values().for_each(|v| collect_literals(v, out, problems));
            collect_literals(other, out, problems);
        }
        ParsedValue::ForeignKey(_) => problems.push("unreduced foreign key reachable after check_locales".into()),
        ParsedValue::Subkeys(Some(_)) => problems.push("untaken subkeys reachable after check_locales".into()),
        ParsedValue::Subkeys(None) => {}
    }
}

fn check_tree(
    top: &BTreeMap<String, (Vec<String>, usize)>,
    scope: &str,
    locales: &[Locale],
    keys: &BuildersKeysInner,
    problems: &mut Vec<String>,
    n_literals: &mut usize,
) {
    for locale in locales {
        let tname = locale.top_locale_name.name.to_string();
        let Some((strings, count)) = top.get(&tname) else {
            problems.push(format!("{scope}: sub-locale names unknown top locale {tname}"));
            continue;
        };
        if locale.top_locale_string_count != *count {
            problems.push(format!(
                "{scope}: locale {tname} at this level expects {} strings but the table has {count}",
                locale.top_locale_string_count
            ));
        }
        for (key, lv) in &keys.0 {
            if let LocaleValue::Value { .. } = lv {
                let Some(v) = locale.keys.get(key) else {
                    problems.push(format!("{scope}: key {key} missing in locale {tname} after merge"));
                    continue;
                };
                let mut lits = vec![];
                collect_literals(v, &mut lits, problems);
                for (s, i) in lits {
                    *n_literals += 1;
                    match strings.get(i) {
                        Some(t) if *t == s => {}
                        Some(t) => problems.push(format!("{scope}: locale {tname} key {key}: literal {s:?} has index {i} but table[{i}] = {t:?}")),
                        None => problems.push(format!("{scope}: locale {tname} key {key}: literal {s:?} has index {i} outside table of {}", strings.len())),
                    }
                }
            }
        }
    }
    for (key, lv) in &keys.0 {
        if let LocaleValue::Subkeys { locales: subs, keys: subkeys } = lv {
            if subs.len() != locales.len() {
                problems.push(format!("{scope}.{key}: {} sub-locales for {} locales", subs.len(), locales.len()));
            }
            check_tree(top, &format!("{scope}.{key}"), subs, subkeys, problems, n_literals);
        }
    }
}

struct Unit {
    scope: String,
    locales: Vec<(String, Vec<String>, usize)>,
}

fn units_of(keys: &BuildersKeys, problems: &mut Vec<String>, n_literals: &mut usize) -> Vec<Unit> {
    let mut units = vec![];
    let mut one = |scope: String, locales: &[Locale], keys: &BuildersKeysInner, problems: &mut Vec<String>| {
        let mut top = BTreeMap::new();
        let mut ls = vec![];
        for l in locales {
            let strings: Vec<String> = l.strings.iter().map(|s| s.to_string()).collect();
            if l.top_locale_string_count != strings.len() {
                problems.push(format!("{scope}: top locale {} count {} != table length {}", l.name, l.top_locale_string_count, strings.len()));
            }
            top.insert(l.top_locale_name.name.to_string(), (strings.clone(), l.top_locale_string_count));
            ls.push((l.name.name.to_string(), strings, l.top_locale_string_count));
        }
        check_tree(&top, &scope, locales, keys, problems, n_literals);
        units.push(Unit { scope, locales: ls });
    };
    match keys {
        BuildersKeys::Locales { locales, keys } => one(String::new(), locales, keys, problems),
        BuildersKeys::NameSpaces { namespaces, keys } => {
            for ns in namespaces {
                match keys.get(&ns.key) {
                    Some(k) => one(ns.key.name.to_string(), &ns.locales, k, problems),
                    None => problems.push(format!("namespace {} has no builder keys", ns.key)),
                }
            }
        }
    }
    units
}

/// `translations-path` of the project's manifest, if any
fn translations_path(dir: &std::path::Path) -> Option<String> {
    let text = std::fs::read_to_string(dir.join("Cargo.toml")).ok()?;
    let v: toml::Value = toml::from_str(&text).ok()?;
    v.get("package")?.get("metadata")?.get("leptos-i18n")?.get("translations-path")?.as_str().map(String::from)
}

/// String literals given as `endpoint = ".."` in the generated code (the `#[server(endpoint = ..)]` of every unit)
fn endpoints(ts: proc_macro2::TokenStream, out: &mut Vec<String>) {
    use proc_macro2::TokenTree as T;
    let toks: Vec<T> = ts.into_iter().collect();
    for (i, t) in toks.iter().enumerate() {
        match t {
            T::Group(g) => endpoints(g.stream(), out),
            T::Ident(id) if id == "endpoint" => {
                if let (Some(T::Punct(p)), Some(T::Literal(l))) = (toks.get(i + 1), toks.get(i + 2)) {
                    if p.as_char() == '=' {
                        if let Ok(s) = syn::parse_str::<syn::LitStr>(&l.to_string()) {
                            out.push(s.value());
                        }
                    }
                }
            }
            _ => {}
        }
    }
}

/// Tables baked into the generated code: `impl TranslationUnit for X_<locale> { const STRINGS: &[&str; N] = &[..]; }`
fn baked_tables(ts: &proc_macro2::TokenStream) -> Result<Vec<(String, usize, Vec<String>)>, String> {
    use syn::visit::Visit;
    struct V {
        out: Vec<(String, usize, Vec<String>)>,
        err: Option<String>,
    }
    impl<'ast> Visit<'ast> for V {
        fn visit_item_impl(&mut self, i: &'ast syn::ItemImpl) {
            let is_tu = i.trait_.as_ref().is_some_and(|(_, p, _)| p.segments.last().is_some_and(|s| s.ident == "TranslationUnit"));
            if is_tu {
                let name = match &*i.self_ty {
                    syn::Type::Path(p) => p.path.segments.last().map(|s| s.ident.to_string()).unwrap_or_default(),
                    _ => String::new(),
                };
                for it in &i.items {
                    if let syn::ImplItem::Const(c) = it {
                        if c.ident == "STRINGS" {
                            let mut n = usize::MAX;
                            if let syn::Type::Reference(r) = &c.ty {
                                if let syn::Type::Array(a) = &*r.elem {
                                    if let syn::Expr::Lit(syn::ExprLit { lit: syn::Lit::Int(li), .. }) = &a.len {
                                        n = li.base10_parse().unwrap_or(usize::MAX);
                                    }
                                }
                            }
                            let mut strings = vec![];
                            if let syn::Expr::Reference(r) = &c.expr {
                                if let syn::Expr::Array(a) = &*r.expr {
                                    for e in &a.elems {
                                        match e {
                                            syn::Expr::Lit(syn::ExprLit { lit: syn::Lit::Str(s), .. }) => strings.push(s.value()),
                                            other => self.err = Some(format!("non-literal table element {}", quote::quote!(#other))),
                                        }
                                    }
                                }
                            }
                            self.out.push((name.clone(), n, strings));
                        }
                    }
                }
            }
            syn::visit::visit_item_impl(self, i);
        }
    }
    let file: syn::File = syn::parse2(ts.clone()).map_err(|e| format!("generated code does not parse as a Rust file: {e}"))?;
    let mut v = V { out: vec![], err: None };
    v.visit_file(&file);
    match v.err {
        Some(e) => Err(e),
        None => Ok(v.out),
    }
}

/// `index_translations::<N, I>` pairs in the generated code.
fn index_pairs(ts: proc_macro2::TokenStream, out: &mut Vec<(usize, usize)>) {
    use proc_macro2::TokenTree as T;
    let toks: Vec<T> = ts.into_iter().collect();
    let mut i = 0;
    while i < toks.len() {
        match &toks[i] {
            T::Group(g) => index_pairs(g.stream(), out),
            T::Ident(id) if id == "index_translations" => {
                // :: < N , I >
                let lits: Vec<usize> = toks[i + 1..(i + 9).min(toks.len())]
                    .iter()
                    .filter_map(|t| if let T::Literal(l) = t { l.to_string().trim_end_matches("usize").parse().ok() } else { None })
                    .collect();
                if lits.len() >= 2 {
                    out.push((lits[0], lits[1]));
                }
            }
            _ => {}
        }
        i += 1;
    }
}

/// Lengths N of every `[Box<str>; N]`, `[&str; N]`, `[&'static str; N]` array type in the generated code:
/// these are the sizes the generated code expects string tables to have (at every subkey level and in
/// every feature configuration).
fn table_array_lens(ts: proc_macro2::TokenStream, out: &mut Vec<usize>) {
    use proc_macro2::{Delimiter, TokenTree as T};
    for t in ts {
        if let T::Group(g) = t {
            if g.delimiter() == Delimiter::Bracket {
                let toks: Vec<T> = g.stream().into_iter().collect();
                let text: String = toks.iter().map(|t| t.to_string()).collect::<Vec<_>>().join(" ");
                let is_str_array = text.starts_with("Box < str > ;") || text.starts_with("& str ;") || text.starts_with("& 'static str ;");
                if is_str_array {
                    if let Some(T::Literal(l)) = toks.last() {
                        if let Ok(n) = l.to_string().trim_end_matches("usize").parse::<usize>() {
                            out.push(n);
                        }
                    }
                }
            }
            table_array_lens(g.stream(), out);
        }
    }
}

pub fn run_write_case(scratch: &Scratch, project: &Project, case: &Value) -> Value {
    scratch.reset();
    let dir = scratch.case_dir();
    materialize(project, &dir, false);
    let mut problems: Vec<String> = vec![];
    let mut n_literals = 0usize;
    // ground truth: the parser's in-memory tables
    let parsed = std::panic::catch_unwind(std::panic::AssertUnwindSafe(|| parse_locales::parse_locales(true, Some(dir.clone()))));
    let keys = match parsed {
        Ok(Ok((keys, _, _))) => keys,
        Ok(Err(e)) => return json!({"skipped": format!("project does not parse fault-free: {e}")}),
        Err(_) => return json!({"skipped": format!("project panics fault-free: {:?}", take_panic())}),
    };
    let units = units_of(&keys, &mut problems, &mut n_literals);
    let infos = match TranslationsInfos::parse_at_dir(dir.clone()) {
        Ok(i) => i,
        Err(e) => return json!({"skipped": format!("build API rejects the project: {e}")}),
    };

    // ---- output fault set-up
    let fault = &case["out_fault"];
    let op = fault["op"].as_str().unwrap_or("none");
    let mut out = scratch.out_dir();
    let mut fired = op == "none";
    let target_rel = |idx: usize| -> Option<PathBuf> {
        // idx-th output file in write order
        let mut all = vec![];
        for u in &units {
            for (name, _, _) in &u.locales {
                let mut p = PathBuf::new();
                if !u.scope.is_empty() {
                    p.push(&u.scope);
                }
                p.push(format!("{name}.json"));
                all.push(p);
            }
        }
        if all.is_empty() {
            None
        } else {
            Some(all[idx % all.len()].clone())
        }
    };
    let idx = fault["idx"].as_u64().unwrap_or(0) as usize;
    let mut fsize: Option<u64> = None;
    match op {
        "none" => {}
        "nested_missing" => {
            out = out.join("a/b/c");
            fired = true;
        }
        "out_is_file" => {
            write_file(&out, b"i am a file");
            fired = true;
        }
        "parent_is_file" => {
            write_file(&out, b"i am a file");
            out = out.join("sub");
            fired = true;
        }
        "stale_longer" => {
            if let Some(rel) = target_rel(idx) {
                let mut junk = b"[\"stale\",".to_vec();
                junk.extend(std::iter::repeat(b'x').take(100_000));
                write_file(&out.join(rel), &junk);
                fired = true;
            }
        }
        "stale_same_len" => {
            // the directory holds the export of an earlier run in which one table had other text of the same length
            if let Some(rel) = target_rel(idx) {
                let prev = scratch.root.join("previous_export");
                let wrote = std::panic::catch_unwind(std::panic::AssertUnwindSafe(|| infos.get_translations().write_to_dir(prev.clone())));
                if let (Ok(Ok(())), Ok(mut bytes)) = (wrote, std::fs::read(prev.join(&rel))) {
                    if let Some(pos) = bytes.iter().position(|b| b.is_ascii_alphabetic()) {
                        bytes[pos] = if bytes[pos] == b'x' { b'y' } else { b'x' };
                        write_file(&out.join(rel), &bytes);
                        fired = true;
                    }
                }
                force_remove(&prev);
            }
        }
        "stale_dir" => {
            if let Some(rel) = target_rel(idx) {
                fired = std::fs::create_dir_all(out.join(rel)).is_ok();
            }
        }
        "dev_full" => {
            if let Some(rel) = target_rel(idx) {
                let p = out.join(rel);
                if let Some(d) = p.parent() {
                    let _ = std::fs::create_dir_all(d);
                }
                fired = Path::new("/dev/full").exists() && std::os::unix::fs::symlink("/dev/full", &p).is_ok();
            }
        }
        "dangling_link" => {
            if let Some(rel) = target_rel(idx) {
                let p = out.join(rel);
                if let Some(d) = p.parent() {
                    let _ = std::fs::create_dir_all(d);
                }
                fired = std::os::unix::fs::symlink(scratch.root.join("elsewhere.json"), &p).is_ok();
            }
        }
        "link_loop" => {
            if let Some(rel) = target_rel(idx) {
                let p = out.join(rel);
                if let Some(d) = p.parent() {
                    let _ = std::fs::create_dir_all(d);
                }
                fired = std::os::unix::fs::symlink(&p, &p).is_ok();
            }
        }
        "readonly_dir" => {
            let _ = std::fs::create_dir_all(&out);
            let _ = std::fs::set_permissions(&out, std::fs::Permissions::from_mode(0o555));
            fired = std::fs::write(out.join(".probe"), b"x").is_err();
            let _ = std::fs::remove_file(out.join(".probe"));
        }
        "long_name" => {
            out = out.join("n".repeat(300));
            fired = true;
        }
        "fsize" => {
            fsize = Some(fault["k"].as_u64().unwrap_or(0));
            fired = true;
        }
        _ => {}
    }

    // ---- the call under test
    if let Some(k) = fsize {
        set_fsize_limit(Some(k));
    }
    let res = std::panic::catch_unwind(std::panic::AssertUnwindSafe(|| infos.get_translations().write_to_dir(out.clone())));
    if fsize.is_some() {
        set_fsize_limit(None);
    }
    let elsewhere = scratch.root.join("elsewhere.json");
    let result = match &res {
        Ok(Ok(())) => json!({"status": "ok"}),
        Ok(Err(e)) => json!({"status": "err", "display": e.to_string(), "kind": format!("{:?}", e.kind())}),
        Err(_) => {
            let (msg, loc) = take_panic();
            json!({"status": "panic", "msg": msg, "loc": norm_loc(&loc)})
        }
    };

    // ---- durable state vs tables
    let mut files = vec![];
    let mut durable_problems: Vec<String> = vec![];
    let mut sample: Option<Value> = None;
    for u in &units {
        for (name, strings, count) in &u.locales {
            let mut p = out.clone();
            if !u.scope.is_empty() {
                p.push(&u.scope);
            }
            p.push(format!("{name}.json"));
            let label = if u.scope.is_empty() { format!("{name}.json") } else { format!("{}/{name}.json", u.scope) };
            // only a regular file counts as durable (a /dev/full link would read back zeros forever)
            let data = match std::fs::metadata(&p) {
                Ok(md) if !md.is_file() => Err(std::io::Error::new(std::io::ErrorKind::Other, "not a regular file")),
                Ok(_) => std::fs::read(&p),
                Err(e) => Err(e),
            };
            let mut f = json!({"file": label, "expected_len": strings.len()});
            match data {
                Err(e) => {
                    f["state"] = json!(format!("unreadable: {:?}", e.kind()));
                    durable_problems.push(format!("{label}: not readable after the call ({:?})", e.kind()));
                }
                Ok(bytes) => {
                    f["bytes"] = json!(bytes.len());
                    match std::str::from_utf8(&bytes).map_err(|e| e.to_string()).and_then(|s| serde_json::from_str::<Vec<String>>(s).map_err(|e| e.to_string())) {
                        Err(e) => {
                            f["state"] = json!("invalid");
                            let head: String = String::from_utf8_lossy(&bytes).chars().take(60).collect();
                            durable_problems.push(format!("{label}: not a JSON array of strings: {e}; {} bytes; head {head:?}", bytes.len()));
                        }
                        Ok(decoded) => {
                            if &decoded == strings && decoded.len() == *count {
                                f["state"] = json!("equal");
                                if sample.is_none() {
                                    sample = Some(json!({"file": label, "strings": decoded.iter().take(4).collect::<Vec<_>>()}));
                                }
                            } else {
                                f["state"] = json!("differs");
                                let first = decoded.iter().zip(strings.iter()).position(|(a, b)| a != b);
                                durable_problems.push(format!(
                                    "{label}: decodes to {} strings, table has {} (count {count}); first difference at {first:?}",
                                    decoded.len(),
                                    strings.len()
                                ));
                            }
                        }
                    }
                }
            }
            files.push(f);
        }
    }
    let _ = std::fs::remove_file(&elsewhere);

    // ---- baked tables of the generated code vs parser tables (fault-free runs only; the generator does no output I/O)
    let mut baked = json!(null);
    if op == "none" && case["codegen"].as_bool().unwrap_or(true) {
        let (rep, ts) = run_codegen(&dir);
        if let Some(ts) = ts {
            match baked_tables(&ts) {
                Err(e) => problems.push(format!("generated code: {e}")),
                Ok(tables) if tables.is_empty() => {
                    // this feature configuration bakes no tables (client-side dynamic loading) or the generated
                    // code changed shape: nothing to compare table contents with
                    baked = json!({"tables": 0});
                }
                Ok(tables) => {
                    let mut want: Vec<(String, usize, Vec<String>)> = vec![];
                    for u in &units {
                        for (name, strings, count) in &u.locales {
                            want.push((name.replace('-', "_"), *count, strings.clone()));
                        }
                    }
                    let mut unmatched = tables.clone();
                    for (lname, count, strings) in &want {
                        let pos = unmatched.iter().position(|(sname, n, s)| sname.ends_with(&format!("_{lname}")) && n == count && s == strings);
                        match pos {
                            Some(i) => {
                                unmatched.remove(i);
                            }
                            None => problems.push(format!("generated code has no baked table equal to the parser table of locale {lname} ({count} strings)")),
                        }
                    }
                    if !unmatched.is_empty() {
                        problems.push(format!("generated code has {} baked tables that match no parser table: {:?}", unmatched.len(), unmatched.iter().map(|(n, c, _)| (n, c)).collect::<Vec<_>>()));
                    }
                    let mut pairs = vec![];
                    index_pairs(ts.clone(), &mut pairs);
                    let lens: Vec<usize> = want.iter().map(|(_, c, _)| *c).collect();
                    for (n, i) in &pairs {
                        if i >= n {
                            problems.push(format!("generated code reads index {i} of a table declared with {n} strings"));
                        }
                        if !lens.contains(n) {
                            problems.push(format!("generated code reads a table of {n} strings but no locale has that many"));
                        }
                    }
                    baked = json!({"tables": tables.len(), "index_reads": pairs.len()});
                }
            }
            // sizes the generated code expects, in every configuration and at every subkey level
            let lens: Vec<usize> = units.iter().flat_map(|u| u.locales.iter().map(|(_, _, c)| *c)).collect();
            let mut arr = vec![];
            table_array_lens(ts.clone(), &mut arr);
            for n in &arr {
                if !lens.contains(n) {
                    problems.push(format!("generated code declares a string table type of {n} strings but no locale's table has that many (tables: {lens:?})"));
                    break;
                }
            }
            if let Some(b) = baked.as_object_mut() {
                b.insert("table_types_checked".into(), json!(arr.len()));
            }
            // client-side dynamic loading: the table the generated code requests for (namespace, locale) is the one
            // exported for that namespace and locale, i.e. `translations-path` with the *names* substituted
            if cfg!(all(feature = "dynamic_load", feature = "csr")) {
                if let Some(tp) = translations_path(&dir) {
                    let mut got = vec![];
                    endpoints(ts.clone(), &mut got);
                    let got: std::collections::BTreeSet<String> = got.into_iter().collect();
                    let mut want = std::collections::BTreeSet::new();
                    for u in &units {
                        for (name, _, _) in &u.locales {
                            want.insert(tp.replace("{locale}", name).replace("{namespace}", &u.scope));
                        }
                    }
                    if got != want {
                        let missing: Vec<&String> = want.difference(&got).take(3).collect();
                        let extra: Vec<&String> = got.difference(&want).take(3).collect();
                        problems.push(format!("generated code requests tables under other names than `translations-path` gives the exported ones: not requested {missing:?}, requested but never exported {extra:?}"));
                    }
                    if let Some(b) = baked.as_object_mut() {
                        b.insert("endpoints_checked".into(), json!(got.len()));
                    }
                }
            }
        } else {
            baked = rep;
        }
    }
    // what this build of the parser exports, independent of where it was written (compared across builds by ./check)
    let export_digest = if op == "none" {
        let all: Vec<(&str, &str, &Vec<String>)> = units.iter().flat_map(|u| u.locales.iter().map(move |(n, s, _)| (u.scope.as_str(), n.as_str(), s))).collect();
        json!(format!("{:016x}", simkit::fnv(serde_json::to_string(&all).unwrap().as_bytes())))
    } else {
        json!(null)
    };
    let reply = json!({
        "export_digest": export_digest,
        "fired": fired, "result": result, "files": files, "durable_problems": durable_problems,
        "table_problems": problems, "literals_checked": n_literals, "baked": baked, "sample": sample,
        "units": units.iter().map(|u| json!({"scope": u.scope, "locales": u.locales.iter().map(|(n, s, _)| json!([n, s.len()])).collect::<Vec<_>>()})).collect::<Vec<_>>(),
    });
    // scratch paths carry the worker's pid (a code-generator refusal quotes the file it read): normalise, as the read case does
    let text = reply.to_string().replace(&*scratch.root.to_string_lossy(), "<SCRATCH>");
    serde_json::from_str(&text).unwrap_or(reply)
}
