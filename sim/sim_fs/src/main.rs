//! sim_fs: storage- and stream-fault simulator around the translation loader (C09) and the
//! build helper's writer (C11). One binary per file format (cargo features fmt_json / fmt_yaml / fmt_json5).
#![allow(dead_code, unused_imports, clippy::all)]
extern crate proc_macro;

// The real code generator, source-included from the macro crate (a proc-macro crate cannot be linked as a library).
#[path = "/repo/leptos_i18n_macro/src/load_locales/mod.rs"]
pub mod load_locales;
#[path = "/repo/leptos_i18n_macro/src/utils/mod.rs"]
pub mod utils;

mod c09;
mod c11;
mod corpus;
mod driver;
mod exec;
mod gen;

use serde_json::{json, Value};
use std::io::{BufRead, Write};

fn worker() {
    exec::install_panic_hook();
    exec::ignore_sigxfsz();
    let projects = corpus::load();
    let scratch = exec::Scratch::new();
    if std::env::var("VERIF_KEEP_ROOT").is_err() {
        exec::drop_privileges(&scratch.root);
    }
    let stdin = std::io::stdin();
    let stdout = std::io::stdout();
    for line in stdin.lock().lines() {
        let Ok(line) = line else { break };
        if line.trim().is_empty() {
            continue;
        }
        let case: Value = match serde_json::from_str(&line) {
            Ok(v) => v,
            Err(e) => {
                let mut o = stdout.lock();
                let _ = writeln!(o, "{}", json!({"harness_error": format!("bad case json: {e}")}));
                let _ = o.flush();
                continue;
            }
        };
        let pid = case["project"].as_str().unwrap_or("");
        // generated workload projects travel with the case; corpus projects are looked up by id
        let inline = case.get("inline").and_then(gen::project_from_json);
        let reply = match inline.as_ref().or_else(|| projects.iter().find(|p| p.id == pid)) {
            None => json!({"harness_error": format!("unknown project {pid}")}),
            Some(project) => {
                // run on a thread with the default 8 MiB main-thread stack size, like rustc's proc-macro host
                let kind = case["kind"].as_str().unwrap_or("").to_string();
                let scratch = &scratch;
                let case = &case;
                std::thread::scope(|s| {
                    std::thread::Builder::new()
                        .stack_size(8 << 20)
                        .spawn_scoped(s, move || match kind.as_str() {
                            "read" => exec::run_read_case(scratch, project, case),
                            "stream" => exec::run_stream_case(project, case),
                            "write" => exec::run_write_case(scratch, project, case),
                            other => json!({"harness_error": format!("unknown case kind {other}")}),
                        })
                        .expect("spawn case thread")
                        .join()
                        .unwrap_or_else(|_| json!({"harness_error": "case thread panicked outside catch_unwind"}))
                })
            }
        };
        let mut o = stdout.lock();
        let _ = writeln!(o, "{}", reply);
        let _ = o.flush();
    }
}

fn main() {
    let args: Vec<String> = std::env::args().collect();
    let code = match args.get(1).map(|s| s.as_str()) {
        Some("worker") => {
            worker();
            0
        }
        Some("list") => {
            for p in corpus::load() {
                println!("{} files={} bytes={}", p.id, p.files.len(), p.files.values().map(|v| v.len()).sum::<usize>());
            }
            0
        }
        Some("gen") => {
            let p = gen::generate_project(args.get(2).and_then(|s| s.parse().ok()).unwrap_or(1), args.get(3).and_then(|s| s.parse().ok()).unwrap_or(0));
            for (k, v) in &p.files {
                println!("==== {k}\n{}", String::from_utf8_lossy(v));
            }
            0
        }
        Some("c09") => driver::drive("C09", &args[2..]),
        Some("c11") => driver::drive("C11", &args[2..]),
        Some("replay") => driver::replay(&args[2..]),
        Some("one") => {
            // debugging aid: run one case given as JSON on the command line, in this process
            exec::install_panic_hook();
            exec::ignore_sigxfsz();
            let case: Value = serde_json::from_str(&args[2]).expect("case json");
            let projects = corpus::load();
            let generated = case["project"].as_str().and_then(|id| {
                let mut it = id.strip_prefix("gen/")?.split('/');
                Some(gen::generate_project(it.next()?.parse().ok()?, it.next()?.parse().ok()?))
            });
            let inline = case.get("inline").and_then(gen::project_from_json).or(generated);
            let project = inline.as_ref().or_else(|| projects.iter().find(|p| p.id == case["project"].as_str().unwrap_or(""))).expect("project");
            let scratch = exec::Scratch::new();
            let r = match case["kind"].as_str().unwrap_or("") {
                "read" => exec::run_read_case(&scratch, project, &case),
                "stream" => exec::run_stream_case(project, &case),
                _ => exec::run_write_case(&scratch, project, &case),
            };
            println!("{}", serde_json::to_string_pretty(&r).unwrap());
            0
        }
        _ => {
            eprintln!("usage: sim_fs worker | list | c09 --tier T --seed N --out PART | c11 ... | replay FILE | one JSON");
            2
        }
    };
    std::process::exit(code);
}
