//! Workload corpus: real projects of the repository plus the committed hand-written ones.
use leptos_i18n_parser::parse_locales::cfg_file::ConfigFile;
use std::collections::BTreeMap;
use std::path::{Path, PathBuf};

pub const FORMAT: &str = if cfg!(feature = "fmt_json") {
    "json"
} else if cfg!(feature = "fmt_yaml") {
    "yaml"
} else {
    "json5"
};

/// Which feature set the in-process code generator is compiled with ("" = the default one of the test crates).
pub const VARIANT: &str = if cfg!(feature = "macro_cfg_dyn_hydrate") {
    "dynhyd"
} else if cfg!(feature = "macro_cfg_dyn_ssr") {
    "dynssr"
} else if cfg!(feature = "macro_cfg_dyn_csr") {
    "dyncsr"
} else if cfg!(feature = "macro_cfg_misc") {
    "misc"
} else if cfg!(feature = "macro_cfg_bare") {
    "bare"
} else if cfg!(feature = "macro_cfg_quiet") {
    "quiet"
} else {
    ""
};

/// Name of this binary's evidence part / digest file / replay dispatch.
pub fn label() -> String {
    if VARIANT.is_empty() {
        FORMAT.to_string()
    } else {
        format!("{FORMAT}_{VARIANT}")
    }
}

pub fn exts() -> &'static [&'static str] {
    match FORMAT {
        "json" => &["json"],
        "yaml" => &["yaml", "yml"],
        _ => &["json5"],
    }
}

#[derive(Clone, Debug)]
pub struct LocaleFile {
    pub rel: String,
    pub locale: String,
    pub namespace: Option<String>,
}

#[derive(Clone, Debug)]
pub struct Project {
    pub id: String,
    /// every file of the project (relative path -> bytes): Cargo.toml + locale files
    pub files: BTreeMap<String, Vec<u8>>,
    pub locale_files: Vec<LocaleFile>,
    pub locales: Vec<String>,
    pub namespaces: Option<Vec<String>>,
    pub locales_dir: String,
}

fn repo_root() -> PathBuf {
    PathBuf::from(std::env::var("VERIF_REPO").unwrap_or_else(|_| "/repo".into()))
}

fn verif_root() -> PathBuf {
    PathBuf::from(std::env::var("VERIF_ROOT").unwrap_or_else(|_| "/verif".into()))
}

fn candidate_dirs() -> Vec<(String, PathBuf)> {
    let mut out = vec![];
    let repo = repo_root();
    for t in ["json", "json5", "yaml", "namespaces"] {
        out.push((format!("repo/tests/{t}"), repo.join("tests").join(t)));
    }
    for group in ["csr", "ssr", "dynamic_load"] {
        let g = repo.join("examples").join(group);
        let Ok(rd) = std::fs::read_dir(&g) else { continue };
        let mut names: Vec<_> = rd.filter_map(|e| e.ok()).map(|e| e.file_name().to_string_lossy().to_string()).collect();
        names.sort();
        for n in names {
            let p = g.join(&n);
            if p.join("Cargo.toml").is_file() {
                out.push((format!("repo/examples/{group}/{n}"), p));
            } else if p.join("client").join("Cargo.toml").is_file() {
                out.push((format!("repo/examples/{group}/{n}/client"), p.join("client")));
            }
        }
    }
    let corpus = verif_root().join("corpus");
    if let Ok(rd) = std::fs::read_dir(&corpus) {
        let mut names: Vec<_> = rd.filter_map(|e| e.ok()).map(|e| e.file_name().to_string_lossy().to_string()).collect();
        names.sort();
        for n in names {
            let p = corpus.join(&n);
            if p.join("Cargo.toml").is_file() {
                out.push((format!("corpus/{n}"), p));
            }
        }
    }
    out
}

fn find_with_ext(base: &Path) -> Option<PathBuf> {
    for e in exts() {
        let mut p = base.to_path_buf();
        // set_extension would cut "fr-CA" wrongly only for names with dots; mirror the library (set_extension)
        p.set_extension(e);
        if p.is_file() {
            return Some(p);
        }
    }
    None
}

fn load_one(id: &str, dir: &Path) -> Option<Project> {
    let mut manifest_dir = dir.to_path_buf();
    let cfg = ConfigFile::new(&mut manifest_dir).ok()?;
    let locales_dir_rel = cfg.locales_dir.trim_start_matches("./").to_string();
    let ldir = dir.join(&*cfg.locales_dir);
    let mut files = BTreeMap::new();
    let mut locale_files = vec![];
    // keep only the metadata section of Cargo.toml plus a minimal header: the library reads nothing else
    let cargo = std::fs::read_to_string(dir.join("Cargo.toml")).ok()?;
    let section = cargo.split_once("[package.metadata.leptos-i18n]")?.1;
    let section_end = section.find("\n[").map(|i| i + 1).unwrap_or(section.len());
    let cargo_min = format!(
        "[package]\nname = \"case\"\nversion = \"0.1.0\"\nedition = \"2021\"\n\n[package.metadata.leptos-i18n]{}",
        &section[..section_end]
    );
    files.insert("Cargo.toml".to_string(), cargo_min.into_bytes());
    let locales: Vec<String> = cfg.locales.iter().map(|k| k.name.to_string()).collect();
    let namespaces: Option<Vec<String>> = cfg.name_spaces.as_ref().map(|v| v.iter().map(|k| k.name.to_string()).collect());
    match &namespaces {
        None => {
            for l in &locales {
                let p = find_with_ext(&ldir.join(l))?;
                let rel = format!("{}/{}", locales_dir_rel, p.file_name()?.to_str()?);
                files.insert(rel.clone(), std::fs::read(&p).ok()?);
                locale_files.push(LocaleFile { rel, locale: l.clone(), namespace: None });
            }
        }
        Some(nss) => {
            for ns in nss {
                for l in &locales {
                    let p = find_with_ext(&ldir.join(l).join(ns))?;
                    let rel = format!("{}/{}/{}", locales_dir_rel, l, p.file_name()?.to_str()?);
                    files.insert(rel.clone(), std::fs::read(&p).ok()?);
                    locale_files.push(LocaleFile { rel, locale: l.clone(), namespace: Some(ns.clone()) });
                }
            }
        }
    }
    Some(Project { id: id.to_string(), files, locale_files, locales, namespaces, locales_dir: locales_dir_rel })
}

/// All projects whose locale files are in this binary's format.
pub fn load() -> Vec<Project> {
    let mut out = vec![];
    for (id, dir) in candidate_dirs() {
        if let Some(p) = load_one(&id, &dir) {
            out.push(p);
        }
    }
    out
}
