//! Seeded workload generator: well-formed translation projects drawn from the documented value grammar
//! (strings, interpolation, formatters, components, subkeys, ranges of every number type, plurals per
//! locale, literals, foreign keys with and without arguments, explicit and implicit defaults, inherits,
//! namespaces). Generated projects are *workload* for the fault simulator, next to the frozen corpus; a
//! project is used only if it loads fault-free (checked by a baseline case in a worker).
use crate::corpus::{LocaleFile, Project, FORMAT};
use serde_json::{json, Map, Value};
use simkit::Rng;
use std::collections::BTreeMap;

const LOCALES: &[&str] = &["en", "fr", "de", "ja", "ru", "ar", "fr-CA", "pt-BR", "pl"];
const TEXTS: &[&str] = &[
    "Hello", "Click here", "Same text", "OK", "été €", "名前", "Привет мир", "نص", "a \"quoted\" word", "back\\slash", "tab\there", "nbsp\u{a0}here",
    "zero\u{200b}width", "nel\u{85}c1\u{9f}\u{80}", "\u{85}", "del\u{7f}bom\u{feff}", "\u{301}combining first", "astral 😀 𝔘", "line\u{2028}sep", "</script>", "it's", "100%", "a{b}c", "semi;colon: here", "x",
];
const VAR_NAMES: &[&str] = &["name", "value", "who", "n", "total"];
const COMP_NAMES: &[&str] = &["b", "i", "a", "strong"];
const FORMATTERS: &[&str] = &[
    "number", "number(grouping_strategy: never)", "currency(currency_code: EUR)", "date", "date(date_length: full)", "time", "datetime(date_length: long; time_length: medium)",
    "list", "list(list_type: or; list_style: short)",
];
const RANGE_TYPES: &[&str] = &["i8", "i16", "i32", "i64", "u8", "u16", "u32", "u64", "f32", "f64"];

fn plural_forms(locale: &str) -> &'static [&'static str] {
    match locale.split('-').next().unwrap_or("") {
        "en" | "de" => &["one", "other"],
        "fr" | "pt" => &["one", "many", "other"],
        "ru" | "pl" => &["one", "few", "many", "other"],
        "ar" => &["zero", "one", "two", "few", "many", "other"],
        _ => &["other"],
    }
}

#[derive(Clone, Debug)]
enum Kind {
    Plain,
    Interp,
    Formatted,
    Comp,
    /// the number type is part of the key's signature: it must agree across locales
    Range(usize),
    Plural { ordinal: bool },
    Lit,
    Fk { target: usize, args: bool },
    Sub(Vec<(String, Kind)>),
}

fn text(rng: &mut Rng, locale: &str) -> String {
    let t = rng.pick(TEXTS);
    // size knob: now and then a text around the 8 KiB capacity of the export's BufWriter, so that escapes and
    // multibyte characters land on either side of a flush boundary
    if rng.chance(1, 150) {
        let target = 8150 + rng.below(120);
        let mut s = format!("long ({locale}) ");
        while s.len() < target {
            s.push_str(t);
            s.push(' ');
        }
        s.push_str(*rng.pick(&["\"", "\\", "\u{a0}", "😀", "\n", "\u{2028}", "é", "\u{7f}", "end"]));
        return s;
    }
    if rng.chance(1, 3) {
        t.to_string() // same literal text across locales (exercises string dedup / sharing)
    } else {
        format!("{t} ({locale})")
    }
}

fn value_for(kind: &Kind, rng: &mut Rng, locale: &str, plain_keys: &[String], out: &mut Map<String, Value>, key: &str) {
    match kind {
        Kind::Plain => {
            out.insert(key.into(), json!(text(rng, locale)));
        }
        Kind::Interp => {
            let v = rng.pick(VAR_NAMES);
            let ws = if rng.chance(1, 2) { " " } else { "" };
            out.insert(key.into(), json!(format!("{} {{{{{ws}{v}{ws}}}}} {}", text(rng, locale), if rng.chance(1, 2) { text(rng, locale) } else { String::new() })));
        }
        Kind::Formatted => {
            let f = rng.pick(FORMATTERS);
            out.insert(key.into(), json!(format!("{}: {{{{ x, {f} }}}}", text(rng, locale))));
        }
        Kind::Comp => {
            let c = rng.pick(COMP_NAMES);
            let inner = if rng.chance(1, 3) { format!("<i>{}</i> {{{{ name }}}}", text(rng, locale)) } else { text(rng, locale) };
            out.insert(key.into(), json!(format!("{} <{c}>{inner}</{c}> {}", text(rng, locale), text(rng, locale))));
        }
        Kind::Range(ty) => {
            let ty = &RANGE_TYPES[*ty % RANGE_TYPES.len()];
            let float = ty.starts_with('f');
            let unsigned = ty.starts_with('u');
            let mut seq: Vec<Value> = vec![];
            if *ty != "i32" || rng.chance(1, 2) {
                seq.push(json!(ty)); // i32 is the default and may be left out
            }
            let n = 1 + rng.below(3);
            for i in 0..n {
                let count: Value = match rng.below(4) {
                    0 => json!(i),
                    1 if float => json!(format!("{}..={}", i * 10, i * 10 + 4)),
                    1 => json!(format!("{}..{}", i * 10, i * 10 + 5)),
                    2 if !float => json!(format!("{}..={}", i * 10 + 5, i * 10 + 9)),
                    2 => json!(format!("{}..={}", i * 10 + 5, i * 10 + 9)),
                    _ if !unsigned && !float => json!(format!("..{}", -(i as i64) - 1)),
                    _ => json!(format!("{}", i + 50)),
                };
                let val = if rng.chance(1, 3) { format!("{} {{{{ count }}}}", text(rng, locale)) } else { text(rng, locale) };
                if rng.chance(1, 4) {
                    seq.push(json!([val, count, 100 + i]));
                } else {
                    seq.push(json!([val, count]));
                }
            }
            // fallback (always present: required for floats, harmless otherwise)
            if rng.chance(1, 2) {
                seq.push(json!([format!("{} {{{{ count }}}}", text(rng, locale))]));
            } else {
                seq.push(json!([text(rng, locale), "_"]));
            }
            out.insert(key.into(), Value::Array(seq));
        }
        Kind::Plural { ordinal } => {
            for form in plural_forms(locale) {
                let k = if *ordinal { format!("{key}_ordinal_{form}") } else { format!("{key}_{form}") };
                out.insert(k, json!(format!("{{{{ count }}}} {} [{form}]", text(rng, locale))));
            }
        }
        Kind::Lit => {
            let v = match rng.below(4) {
                0 => json!(rng.chance(1, 2)),
                1 => json!(rng.below(1000)),
                2 => json!(-(rng.below(1000) as i64)),
                _ => json!(rng.below(1000) as f64 / 8.0),
            };
            out.insert(key.into(), v);
        }
        Kind::Fk { target, args } => {
            let t = &plain_keys[*target % plain_keys.len().max(1)];
            let s = if *args {
                format!("{} $t({t}, {{\"name\": \"{}\", \"count\": {}}}) {}", text(rng, locale), rng.pick(TEXTS).replace(['"', '\\'], ""), rng.below(5), text(rng, locale))
            } else {
                format!("{} $t({t})", text(rng, locale))
            };
            out.insert(key.into(), json!(s));
        }
        Kind::Sub(children) => {
            let mut m = Map::new();
            for (k, kind) in children {
                value_for(kind, rng, locale, plain_keys, &mut m, k);
            }
            out.insert(key.into(), Value::Object(m));
        }
    }
}

fn gen_kinds(rng: &mut Rng, depth: usize, prefix: &str, plain_paths: &mut Vec<String>, ns: Option<&str>) -> Vec<(String, Kind)> {
    let mut n = 2 + rng.below(if depth == 0 { 8 } else { 4 });
    // size knob: now and then a wide unit, so that string indices pass 255 / 256
    if depth == 0 && rng.chance(1, 25) {
        n = 150 + rng.below(140);
    }
    let mut out = vec![];
    for i in 0..n {
        let key = format!("k{depth}_{i}");
        let path = if prefix.is_empty() { key.clone() } else { format!("{prefix}.{key}") };
        let kind = match rng.below(16) {
            0..=3 => Kind::Plain,
            4 | 5 => Kind::Interp,
            6 => Kind::Formatted,
            7 => Kind::Comp,
            8 | 9 => Kind::Range(rng.below(RANGE_TYPES.len())),
            10 => Kind::Plural { ordinal: rng.chance(1, 4) },
            11 => Kind::Lit,
            12 | 13 if !plain_paths.is_empty() => Kind::Fk { target: rng.below(plain_paths.len()), args: rng.chance(1, 2) },
            14 | 15 if depth < 3 => Kind::Sub(gen_kinds(rng, depth + 1, &path, plain_paths, ns)),
            _ => Kind::Plain,
        };
        if matches!(kind, Kind::Plain | Kind::Interp) {
            plain_paths.push(match ns {
                Some(n) => format!("{n}:{path}"),
                None => path.clone(),
            });
        }
        out.push((key, kind));
    }
    out
}

/// Derive a non-default locale's view of the tree: keep, drop (implicit default), null (explicit default) or change kind.
fn derive(kinds: &[(String, Kind)], rng: &mut Rng, inherit_heavy: bool) -> Vec<(String, Option<Kind>)> {
    kinds
        .iter()
        .filter_map(|(k, kind)| {
            let r = rng.below(if inherit_heavy { 4 } else { 12 });
            match kind {
                Kind::Sub(children) => {
                    // subkeys must stay subkeys; inner keys may default
                    let inner = derive(children, rng, inherit_heavy);
                    let kept: Vec<(String, Kind)> = inner.into_iter().filter_map(|(k, v)| v.map(|v| (k, v))).collect();
                    if kept.is_empty() {
                        None
                    } else {
                        Some((k.clone(), Some(Kind::Sub(kept))))
                    }
                }
                Kind::Plural { .. } | Kind::Fk { .. } => Some((k.clone(), Some(kind.clone()))),
                // plain and interpolated keys may be foreign-key targets: never implicitly defaulted
                Kind::Plain | Kind::Interp if r == 0 => Some((k.clone(), Some(kind.clone()))),
                _ if r == 0 => None,                      // missing -> implicit default
                _ if r == 1 => Some((k.clone(), None)),   // null -> explicit default
                Kind::Plain if r == 2 => Some((k.clone(), Some(Kind::Range(2)))), // kinds may differ between locales (i32 everywhere)
                Kind::Range(_) if r == 2 => Some((k.clone(), Some(Kind::Interp))),
                _ => Some((k.clone(), Some(kind.clone()))),
            }
        })
        .collect()
}

fn emit(v: &Value) -> (String, &'static str) {
    match FORMAT {
        "json" => (serde_json::to_string_pretty(v).unwrap() + "\n", "json"),
        "json5" => {
            let body = serde_json::to_string_pretty(v).unwrap().replace('\u{2028}', "\\u2028").replace('\u{2029}', "\\u2029");
            (format!("// generated (json5)\n{body}\n"), "json5")
        }
        _ => {
            #[cfg(feature = "yaml_files")]
            {
                (format!("---\n{}", serde_yaml::to_string(v).unwrap()), "yaml")
            }
            #[cfg(not(feature = "yaml_files"))]
            {
                (serde_json::to_string_pretty(v).unwrap(), "yaml")
            }
        }
    }
}

pub fn generate_project(seed: u64, index: u64) -> Project {
    let mut rng = Rng::for_run(seed ^ 0x6E6E_7072_6F6A, index);
    let n_loc = 2 + rng.below(3);
    let mut pool: Vec<&str> = LOCALES.to_vec();
    rng.shuffle(&mut pool);
    let locales: Vec<String> = pool[..n_loc].iter().map(|s| s.to_string()).collect();
    // (listed in either order: the configuration order need not be the alphabetical one)
    let namespaces: Option<Vec<String>> = if rng.chance(1, 3) { Some(if rng.chance(1, 2) { vec!["common".into(), "page".into()] } else { vec!["page".into(), "common".into()] }) } else { None };
    let inherits: Option<(String, String)> = if n_loc >= 3 && rng.chance(1, 2) { Some((locales[2].clone(), locales[1].clone())) } else { None };
    let mut files: BTreeMap<String, Vec<u8>> = BTreeMap::new();
    let mut locale_files = vec![];
    let mut plain_paths: Vec<String> = vec![];
    let ns_list: Vec<Option<String>> = match &namespaces {
        Some(n) => n.iter().cloned().map(Some).collect(),
        None => vec![None],
    };
    for ns in &ns_list {
        let kinds = gen_kinds(&mut rng, 0, "", &mut plain_paths, ns.as_deref());
        for (li, l) in locales.iter().enumerate() {
            let mut m = Map::new();
            if li == 0 {
                for (k, kind) in &kinds {
                    value_for(kind, &mut rng, l, &plain_paths, &mut m, k);
                }
            } else {
                let heavy = inherits.as_ref().is_some_and(|(a, _)| a == l);
                for (k, kind) in derive(&kinds, &mut rng, heavy) {
                    match kind {
                        Some(kind) => value_for(&kind, &mut rng, l, &plain_paths, &mut m, &k),
                        None => {
                            m.insert(k, Value::Null);
                        }
                    }
                }
            }
            let (textv, ext) = emit(&Value::Object(m));
            let rel = match ns {
                Some(n) => format!("locales/{l}/{n}.{ext}"),
                None => format!("locales/{l}.{ext}"),
            };
            files.insert(rel.clone(), textv.into_bytes());
            locale_files.push(LocaleFile { rel, locale: l.clone(), namespace: ns.clone() });
        }
    }
    let mut cfg = format!("[package]\nname = \"case\"\nversion = \"0.1.0\"\nedition = \"2021\"\nauthors = [\"日本 太郎 <taro@example.jp>\", \"Zoë Müller\"]\n# généré — 生成されたプロジェクト\n\n[package.metadata.leptos-i18n]\ndefault = \"{}\"\nlocales = [{}]\n", locales[0], locales.iter().map(|l| format!("\"{l}\"")).collect::<Vec<_>>().join(", "));
    if let Some(n) = &namespaces {
        cfg.push_str(&format!("namespaces = [{}]\n", n.iter().map(|l| format!("\"{l}\"")).collect::<Vec<_>>().join(", ")));
    }
    // only read by the client-side dynamic-loading configuration of the code generator
    let tp: &str = if namespaces.is_some() {
        *rng.pick(&["i18n/{namespace}/{locale}.json", "{namespace}/{locale}.json", "données/{namespace}/{locale}.json", "api/{locale}/{namespace}.json", "{locale}-{namespace}", "i18n/{locale}-v2}/{namespace}.json", "{{namespace}}/{locale}", "i18n/{namespace/{locale}.json"])
    } else {
        // `{namespace}` is legal without namespaces: it is replaced by nothing
        *rng.pick(&["i18n/{locale}.json", "{namespace}/{locale}.json", "donné{namespace}/{locale}.json", "{locale}.json", "i18n/{namespace}{locale}.json", "{locale}{namespace}", "i18n}/{locale}.json", "}{locale}{", "i18n/{locale"])
    };
    cfg.push_str(&format!("translations-path = \"{tp}\"\n"));
    if let Some((a, b)) = &inherits {
        cfg.push_str(&format!("inherits = {{ {a} = \"{b}\" }}\n"));
    }
    files.insert("Cargo.toml".into(), cfg.into_bytes());
    Project { id: format!("gen/{seed}/{index}"), files, locale_files, locales, namespaces, locales_dir: "locales".into() }
}

/// One very large unit: more distinct texts than a 16-bit slot can number, with repeated texts all along, so that a
/// text first met beyond slot 65535 is met again (C11 only, fault-free only, no code generation: size is the point).
pub fn generate_huge(seed: u64) -> Project {
    let mut rng = Rng::for_run(seed ^ 0x4855_4745, 0);
    let n = 78_000 + rng.below(3_000);
    let locales = vec!["en".to_string(), "fr".to_string()];
    let mut files: BTreeMap<String, Vec<u8>> = BTreeMap::new();
    let mut locale_files = vec![];
    for l in &locales {
        let mut out = String::with_capacity(n * 28);
        out.push('{');
        for i in 0..n {
            if i > 0 {
                out.push(',');
            }
            // every eighth key repeats the text of the key before it
            let t = if i % 8 == 7 { i - 1 } else { i };
            out.push_str(&format!("\"k{i:06}\":\"text {t} ({l})\""));
        }
        out.push('}');
        let rel = format!("locales/{l}.json");
        files.insert(rel.clone(), out.into_bytes());
        locale_files.push(LocaleFile { rel, locale: l.clone(), namespace: None });
    }
    let cfg = "[package]\nname = \"case\"\nversion = \"0.1.0\"\nedition = \"2021\"\n\n[package.metadata.leptos-i18n]\ndefault = \"en\"\nlocales = [\"en\", \"fr\"]\n".to_string();
    files.insert("Cargo.toml".into(), cfg.into_bytes());
    Project { id: format!("gen/huge/{seed}"), files, locale_files, locales, namespaces: None, locales_dir: "locales".into() }
}

pub fn project_to_json(p: &Project) -> Value {
    json!({
        "id": p.id,
        "files": p.files.iter().map(|(k, v)| (k.clone(), Value::String(String::from_utf8_lossy(v).to_string()))).collect::<Map<String, Value>>(),
        "locale_files": p.locale_files.iter().map(|l| json!({"rel": l.rel, "locale": l.locale, "namespace": l.namespace})).collect::<Vec<_>>(),
        "locales": p.locales, "namespaces": p.namespaces, "locales_dir": p.locales_dir,
    })
}

pub fn project_from_json(v: &Value) -> Option<Project> {
    Some(Project {
        id: v["id"].as_str()?.to_string(),
        files: v["files"].as_object()?.iter().map(|(k, v)| (k.clone(), v.as_str().unwrap_or("").as_bytes().to_vec())).collect(),
        locale_files: v["locale_files"].as_array()?.iter().map(|l| LocaleFile { rel: l["rel"].as_str().unwrap_or("").to_string(), locale: l["locale"].as_str().unwrap_or("").to_string(), namespace: l["namespace"].as_str().map(String::from) }).collect(),
        locales: v["locales"].as_array()?.iter().filter_map(|l| l.as_str().map(String::from)).collect(),
        namespaces: v["namespaces"].as_array().map(|a| a.iter().filter_map(|l| l.as_str().map(String::from)).collect()),
        locales_dir: v["locales_dir"].as_str().unwrap_or("locales").to_string(),
    })
}


// ------------------------------------------------------------------ grammar-adversarial variants
//
// A by-product of having a project generator: one value of a generated project is replaced by a value
// from the list the property's quantifier names (unbalanced `{{`, `<`, `$t(`; multibyte characters next to
// delimiters; whitespace inside tags; NaN / inf / overflowing range bounds; ranges without fallback hit by a
// literal count; `$t` inside plural forms and range branches; reference cycles; deep nesting; odd keys).
// Such a project is only loaded fault-free: it must return a result or an error, never panic, abort or hang.

fn adversarial_values(target_key: &str) -> Vec<Value> {
    let nest = |depth: usize| -> Value {
        let mut v = json!("leaf");
        for i in 0..depth {
            v = json!({ format!("n{i}"): v });
        }
        v
    };
    vec![
        json!("<b>x</b\u{3000}>"), json!("<b >x</ b >"), json!("<\u{3000}b>x</b>"), json!("<b>é</bé>"), json!("<é>x</é>"), json!("<b>x</b><b>"), json!("</b>x<b>"),
        json!("x <<b>y"), json!("<é<b>x</b>"), json!("1 < 2 is <b>true</b>"), json!("<<<>>>"), json!("<b<i>x</i></b>"), json!("<a><b>x</a></b>"),
        json!([[null, 0], ["y"]]), json!([[{"a": "b"}, 0], ["y"]]), json!([[null]]), json!(["i32", [null, 1], ["y"]]), json!([["x", null], ["y"]]),
        json!("<b><b><b>x</b>"), json!("<>x</>"), json!("< >x</ >"), json!("<b/>"), json!("é<b>é</b>é\u{a0}"), json!("<b\u{a0}>x</b\u{a0}>"),
        json!("{{ a"), json!("a }}"), json!("{{}}"), json!("{{ }}"), json!("{{ a, }}"), json!("{{ a, number( }}"), json!("{{ é }}"), json!("{{ a,\u{3000}number }}"),
        json!("{{ a, number(grouping_strategy: ) }}"), json!("{{ a, number)( }}"), json!("{{ a, list(list_type: and; ;;; :) }}"), json!("{{ a }}{{ a, number }}{{ a, date }}"),
        json!("{{ count, number }}"), json!("{{ 1a }}"), json!("{{ fn }}"), json!("{{ a b }}"), json!("{{ {{ a }} }}"),
        json!("$t("), json!("$t()"), json!("$t(a"), json!("$t(a,"), json!("$t(a, {)"), json!("$t(a, {\"x\": })"), json!("$t(é)"), json!("$t(a.b.c.d.e)"), json!("$t(:a)"), json!("$t(ns:)"),
        json!("$t(a, {}) trailing"), json!("$t(a, {\"count\": 99999999999999999999})"), json!("$t(a, {\"count\": -1})"), json!("$t(a, {\"count\": 1.5})"), json!("$t(a, {\"count\": \"x\"})"),
        json!("$t(a, {\"count\": \"{{ a }} {{ b }}\"})"), json!(format!("$t({target_key})")), json!(format!("$t({target_key}, {{\"count\": 1000000}})")), json!(format!("$t({target_key}, {{\"count\": -7}})")),
        json!(format!("a $t({target_key}) b $t({target_key}) c")), json!("$t(a, {\"x\": \"$t(a, {\\\"x\\\": 1})\"})"), json!("$t(a,{\"é\":\"é\"})é"), json!("$t(a, [1])"), json!("$t(a, {\"x\": null})"),
        json!(["f32", ["x", "NaN"]]), json!(["f64", ["x", "inf.."], ["y"]]), json!(["f64", ["x", "-inf..inf"], ["y"]]), json!(["f32", ["x", "@@RAW:1e400@@"], ["y"]]), json!(["f64", ["x", "@@RAW:NaN@@"], ["y"]]), json!(["f64", ["x", "@@RAW:.inf@@"], ["y"]]), json!(["u8", ["x", 300], ["y"]]), json!(["u8", ["x", -1], ["y"]]),
        json!(["i8", ["x", "200..300"], ["y"]]), json!([["x", "5..1"], ["y"]]), json!(["i32", ["x", "a..b"], ["y"]]), json!(["zz", ["x", 1]]), json!([["x", 1.5], ["y"]]), json!([[["x", 1]]]), json!([]),
        json!(["u8"]), json!([[]]), json!([["x", "_"], ["y", "_"]]), json!([["x", "_"], ["y", 1]]), json!(["f32", ["x", 1.0]]), json!([["x", 1], ["y", 2]]), json!(["u64", ["x", "18446744073709551615.."]]),
        json!(["i64", ["x", "..=-9223372036854775808"], ["y"]]), json!([["x", "1..=2", "3|4", "|"], ["y"]]), json!([["x", ""], ["y"]]), json!([[1, 2]]), json!([["x", [1, [2]]], ["y"]]), json!([{"value": "x"}]),
        json!([["$t(a)", 1], ["{{ count }} $t(a)"]]), json!(["u8", ["x", "0..=255"]]), json!(["i8", ["x", "..0"], ["y", "0.."]]),
        // exclusive end bounds at the minimum of the number type (nothing can be below them), alone, with a start, in a list
        json!(["u8", ["x", "..0"], ["y"]]), json!(["u16", ["x", "0..0"], ["y"]]), json!(["u32", ["x", "3..0"], ["y"]]), json!(["u64", ["x", "..0 | 5"], ["y"]]), json!(["i8", ["x", "..-128"], ["y"]]), json!(["i16", ["x", "..-32768 | 7"], ["y"]]),
        json!([["x", "..-2147483648"], ["y"]]), json!(["i64", ["x", "..-9223372036854775808"], ["y"]]), json!(["i8", ["x", "127..=127", "..=-128"], ["y"]]), json!(["u8", ["x", "255.."], ["y", "..=0"]]), json!(["i32", ["x", "2147483647.."], ["y"]]),
        json!("@@RAW:1e400@@"), json!("@@RAW:-1e400@@"), json!("@@RAW:99999999999999999999999999@@"), json!("@@RAW:Infinity@@"), json!("@@RAW:.nan@@"), json!("@@RAW:0x10@@"), json!(-0.0), json!(18446744073709551615u64), json!(-9223372036854775808i64), json!(null), json!(true), json!({}), json!({"": "x"}), json!({"a b": "x"}), json!({"1abc": "x"}),
        // long first items of a sequence that are not a range type (the error quotes user text: no cut inside a character)
        json!(["Une boutique de quartier pas chère du tout, vraiment pas chère", ["x", 1]]), json!(["ééééééééééééééééééééééééééééééééééééééééé", "b"]), json!(["aééééééééééééééééééééééééééééééééééééééééé", "b"]),
        json!(["日本語日本語日本語日本語日本語日本語日本語日本語日本語日本語", ["x"]]), json!(["ab日本語日本語日本語日本語日本語日本語日本語日本語日本語日本語", ["x"]]), json!(["😀😀😀😀😀😀😀😀😀😀😀😀😀😀😀😀😀", 1]), json!(["x😀😀😀😀😀😀😀😀😀😀😀😀😀😀😀😀😀", 1]),
        json!("éééééééééééééééééééééééééééééééééééééééééééééééééééééééééééééééééééééééé {{ a, number(éééééééééééééééééééééééééééééééééééééééé: é) }}"), json!("$t(éééééééééééééééééééééééééééééééééééééééééééééééééé)"),
        json!({"fn": "x"}), json!({"é": "x"}), json!({"self": "x"}), json!({"a-b": "x {{ v }}", "a_b": "y"}), nest(40), nest(200),
    ]
}

pub fn generate_adversarial(seed: u64, index: u64) -> Project {
    let mut p = generate_project(seed ^ 0xAD7E, index);
    p.id = format!("adv/{seed}/{index}");
    let mut rng = Rng::for_run(seed ^ 0x0ADD_BAD5, index);
    let lf = rng.pick(&p.locale_files).clone();
    let text = String::from_utf8_lossy(&p.files[&lf.rel]).to_string();
    // the generator's own emitters produce JSON for json/json5 and YAML for yaml: re-read, patch, re-emit
    let mut v: Value = match FORMAT {
        "yaml" => {
            #[cfg(feature = "yaml_files")]
            {
                serde_yaml::from_str(&text).unwrap_or(json!({}))
            }
            #[cfg(not(feature = "yaml_files"))]
            {
                json!({})
            }
        }
        _ => serde_json::from_str(text.trim_start_matches("// generated (json5)\n")).unwrap_or(json!({})),
    };
    let obj = v.as_object_mut().cloned().unwrap_or_default();
    let keys: Vec<String> = obj.keys().cloned().collect();
    let existing = if keys.is_empty() { "k0_0".to_string() } else { rng.pick(&keys).clone() };
    let values = adversarial_values(&existing);
    let n = 1 + rng.below(2);
    let mut obj = obj;
    for _ in 0..n {
        let val = rng.pick(&values).clone();
        match rng.below(5) {
            0 if !keys.is_empty() => {
                obj.insert(rng.pick(&keys).clone(), val); // replace an existing key's value
            }
            1 if !keys.is_empty() => {
                // a plural form of an existing key, or a conflicting form
                let k = rng.pick(&keys).clone();
                let form = rng.pick(&["_one", "_other", "_ordinal_other", "_ordinal_one", "_zero", "_many"]);
                obj.insert(format!("{k}{form}"), val);
            }
            3 => {
                // plural forms whose base key is a keyword, empty, a number or otherwise not an identifier
                let base = *rng.pick(&["type", "", "fn", "self", "1st", "a b", "é", "_", "r#type", "count", "type_ordinal"]);
                obj.insert(format!("{base}_one"), val);
                obj.insert(format!("{base}_other"), json!("{{ count }} others"));
                if rng.chance(1, 2) {
                    obj.insert(format!("{base}_ordinal_one"), json!("{{ count }}st"));
                    obj.insert(format!("{base}_ordinal_other"), json!("{{ count }}th"));
                }
            }
            2 => {
                obj.insert(format!("adv_{}", rng.below(3)), val);
                // self and mutual references
                obj.insert("adv_self".into(), json!("$t(adv_self)"));
                obj.insert("adv_m1".into(), json!("$t(adv_m2) x"));
                obj.insert("adv_m2".into(), json!("$t(adv_m1, {\"count\": 1}) y"));
            }
            _ => {
                obj.insert(format!("adv_{}", rng.below(3)), val);
            }
        }
    }
    let (out, _) = emit(&Value::Object(obj));
    // raw tokens (numbers no JSON value can carry: overflowing, NaN, infinities, hex) are spliced into the text
    let mut out = out;
    while let Some(start) = out.find("@@RAW:") {
        let Some(len) = out[start..].find("@@\"").or_else(|| out[start..].find("@@'")).or_else(|| out[start..].find("@@")) else { break };
        let raw = out[start + 6..start + len].to_string();
        let mut a = start;
        let mut b = start + len + 2;
        if a > 0 && (out.as_bytes()[a - 1] == b'"' || out.as_bytes()[a - 1] == b'\'') && b < out.len() && (out.as_bytes()[b] == b'"' || out.as_bytes()[b] == b'\'') {
            a -= 1;
            b += 1;
        }
        out.replace_range(a..b, &raw);
    }
    p.files.insert(lf.rel.clone(), out.into_bytes());
    p
}
