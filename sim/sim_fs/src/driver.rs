//! Parent side: plan cases from the seed, run them on the worker pool, judge, minimise, confirm, report.
use crate::{c09, c11, corpus};
use serde_json::{json, Value};
use simkit::known;
use simkit::pool::{self, PoolConfig, Reply};
use std::collections::{BTreeMap, BTreeSet};
use std::time::{Duration, Instant};

#[derive(Clone, Debug)]
pub struct Violation {
    pub invariant: String,
    /// stable class of the failure (used for grouping, known findings, and "same violation" while minimising)
    pub signature: String,
    pub detail: String,
}

pub struct Opts {
    pub tier: String,
    pub seed: u64,
    pub out: String,
    pub workers: usize,
    pub replay_dir: String,
    pub known: String,
}

fn parse_opts(args: &[String]) -> Opts {
    let mut o = Opts {
        tier: std::env::var("VERIF_TIER").unwrap_or_else(|_| "quick".into()),
        seed: 0,
        out: String::new(),
        workers: std::thread::available_parallelism().map(|n| n.get()).unwrap_or(4),
        replay_dir: "/verif/replays".into(),
        known: "/verif/known_findings.json".into(),
    };
    let mut seed_set = false;
    let mut i = 0;
    while i < args.len() {
        let v = args.get(i + 1).cloned().unwrap_or_default();
        match args[i].as_str() {
            "--tier" => o.tier = v,
            "--seed" => {
                o.seed = v.parse().unwrap_or(0);
                seed_set = true;
            }
            "--out" => o.out = v,
            "--workers" => o.workers = v.parse().unwrap_or(o.workers),
            "--replay-dir" => o.replay_dir = v,
            "--known" => o.known = v,
            _ => {
                i += 1;
                continue;
            }
        }
        i += 2;
    }
    if !seed_set {
        o.seed = simkit::seed_from_env(if o.tier == "thorough" { 20260926 } else { 1 });
    }
    o
}

pub fn pool_cfg(workers: usize) -> PoolConfig {
    PoolConfig {
        exe: std::env::current_exe().expect("current exe").to_string_lossy().to_string(),
        args: vec!["worker".into()],
        envs: vec![],
        workers,
        watchdog: Duration::from_secs(30),
        max_lost: 24,
    }
}

fn judge(prop: &str, projects: &[corpus::Project], case: &Value, reply: &Reply) -> (Vec<Violation>, Option<Value>) {
    match reply {
        Reply::Died(info) => {
            let class = if info.contains("overflowed its stack") || info.contains("SIGSEGV") || info.contains("signal: 11") {
                "stack_overflow"
            } else if info.contains("SIGABRT") || info.contains("signal: 6") {
                "abort"
            } else {
                "died"
            };
            (vec![Violation { invariant: "no_abort".into(), signature: format!("worker {class}"), detail: info.clone() }], None)
        }
        Reply::Hung => (vec![Violation { invariant: "no_hang".into(), signature: "no reply within watchdog".into(), detail: String::new() }], None),
        Reply::Skipped => (vec![], None),
        Reply::Ok(v) => {
            if let Some(e) = v.get("harness_error") {
                simkit::harness_error(&format!("worker: {e} for case {case}"));
            }
            let inline = case.get("inline").and_then(crate::gen::project_from_json);
            let project = inline.as_ref().or_else(|| projects.iter().find(|p| p.id == case["project"].as_str().unwrap_or("")));
            let vs = match prop {
                "C09" => c09::judge(project.expect("project"), case, v),
                _ => c11::judge(case, v),
            };
            (vs, Some(v.clone()))
        }
    }
}

fn outcome_key(reply: &Reply) -> String {
    match reply {
        Reply::Ok(v) => {
            let mut s = String::new();
            for st in ["parse", "build", "codegen", "faulty", "result"] {
                if let Some(x) = v.get(st) {
                    s.push_str(&format!(
                        "{st}:{}:{}:{}|",
                        x["status"].as_str().unwrap_or(""),
                        x["variant"].as_str().or(x["kind"].as_str()).unwrap_or(""),
                        x["detail"]["digest"].as_str().or(x["digest"].as_str()).or(x["display"].as_str()).unwrap_or("")
                    ));
                }
            }
            if let Some(f) = v.get("files") {
                s.push_str(&format!("{}", simkit::fnv(f.to_string().as_bytes())));
            }
            s
        }
        Reply::Died(_) => "died".into(),
        Reply::Hung => "hung".into(),
        Reply::Skipped => "skipped".into(),
    }
}

pub fn drive(prop: &str, args: &[String]) -> i32 {
    let opts = parse_opts(args);
    let t0 = Instant::now();
    println!("sim_fs {prop} format={} tier={} VERIF_SEED={} workers={}", corpus::label(), opts.tier, opts.seed, opts.workers);
    clean_stale_scratch();
    let mut projects = dedup(corpus::load());
    if projects.is_empty() {
        simkit::harness_error("no corpus project in this format");
    }
    let cfg = pool_cfg(opts.workers);
    // ---- seeded workload: generated projects that load fault-free join the corpus for this run
    let n_gen = if opts.tier == "thorough" { 1500 } else { 150 };
    let generated: Vec<corpus::Project> = (0..n_gen).map(|i| crate::gen::generate_project(opts.seed, i as u64)).collect();
    let gen_base: Vec<Value> = generated.iter().map(|p| json!({"kind": "read", "project": p.id, "inline": crate::gen::project_to_json(p), "faults": [], "decoys": false, "codegen": true, "gen_baseline": true})).collect();
    let gen_replies = pool::run_all(&cfg, &gen_base);
    let mut gen_ok = 0usize;
    let mut extra_cases: Vec<Value> = vec![];
    let mut extra_replies: Vec<Reply> = vec![];
    for ((p, c), r) in generated.into_iter().zip(gen_base.into_iter()).zip(gen_replies.into_iter()) {
        // (the bare build's code generator refuses projects that need a plural / formatter feature: they still export tables)
        let ok = matches!(&r, Reply::Ok(v) if v["parse"]["status"] == "ok" && v["build"]["status"] == "ok" && (v["codegen"]["status"] == "ok" || (corpus::VARIANT == "bare" && v["codegen"]["status"] == "err")));
        // a generated project that is rejected with an error is simply not used; a panic on it is judged like any case
        let panicked = !matches!(&r, Reply::Ok(v) if v["parse"]["status"] != "panic" && v["build"]["status"] != "panic" && v["codegen"]["status"] != "panic");
        if ok {
            gen_ok += 1;
            projects.push(p);
        } else if panicked && prop == "C09" {
            projects.push(p);
            extra_cases.push(c);
            extra_replies.push(r);
        } else if prop == "C11" && matches!(&r, Reply::Ok(v) if v["parse"]["status"] == "ok" && v["build"]["status"] == "panic") {
            // the parser accepts the project but the build helper panics on it: the export case must see it
            projects.push(p);
        }
    }
    // ---- one very large unit (C11, json, default configuration): table positions beyond 16 bits
    if prop == "C11" && corpus::VARIANT.is_empty() && corpus::FORMAT == "json" {
        projects.push(crate::gen::generate_huge(opts.seed));
    }
    // ---- grammar-adversarial variants of generated projects: loaded fault-free only (C09; default code generator only)
    if prop == "C09" && corpus::VARIANT.is_empty() {
        let n_adv = if opts.tier == "thorough" { 60_000 } else { 3_000 };
        let adv: Vec<Value> = (0..n_adv)
            .map(|i| {
                let p = crate::gen::generate_adversarial(opts.seed, i as u64);
                json!({"kind": "read", "project": p.id, "inline": crate::gen::project_to_json(&p), "faults": [], "decoys": false, "codegen": true, "adversarial": true})
            })
            .collect();
        let adv_replies = pool::run_all(&cfg, &adv);
        extra_cases.extend(adv);
        extra_replies.extend(adv_replies);
    }
    let mut cases: Vec<Value> = match prop {
        "C09" => c09::plan(&projects, &opts),
        _ => c11::plan(&projects, &opts),
    };
    for c in cases.iter_mut() {
        if c["project"].as_str().is_some_and(|id| id.starts_with("gen/")) {
            let p = projects.iter().find(|p| Some(p.id.as_str()) == c["project"].as_str()).unwrap();
            c["inline"] = crate::gen::project_to_json(p);
        }
    }
    println!("planned {} cases over {} projects ({} of {} generated projects load fault-free)", cases.len(), projects.len(), gen_ok, n_gen);
    let mut replies = pool::run_all(&cfg, &cases);
    cases.extend(extra_cases);
    replies.extend(extra_replies);

    write_digests(&replies);
    let known_list = known::load(&opts.known);
    let mut faults_fired: BTreeMap<String, u64> = BTreeMap::new();
    let mut probes: BTreeMap<String, u64> = BTreeMap::new();
    let mut outcomes: BTreeSet<String> = BTreeSet::new();
    let mut nontrivial_distinct: BTreeSet<u64> = BTreeSet::new();
    let mut classes: BTreeMap<String, (usize, Violation)> = BTreeMap::new();
    let mut class_counts: BTreeMap<String, u64> = BTreeMap::new();
    let mut samples: Vec<Value> = vec![];
    let mut skipped_projects: BTreeSet<String> = BTreeSet::new();

    let mut export_digests: BTreeMap<String, String> = BTreeMap::new();
    for (i, (case, reply)) in cases.iter().zip(replies.iter()).enumerate() {
        if let Reply::Ok(v) = reply {
            if let (Some(d), Some(p)) = (v["export_digest"].as_str(), case["project"].as_str()) {
                export_digests.insert(p.to_string(), d.to_string());
            }
        }
        let (vs, val) = judge(prop, &projects, case, reply);
        let ok = outcome_key(reply);
        outcomes.insert(ok.clone());
        let mut any_fired = false;
        if let Some(v) = &val {
            match prop {
                "C09" => any_fired = c09::account(case, v, &mut faults_fired, &mut probes),
                _ => any_fired = c11::account(case, v, &mut faults_fired, &mut probes, &mut skipped_projects),
            }
        } else {
            *probes.entry("worker_died_or_hung".into()).or_default() += 1;
        }
        if any_fired {
            // distinct = distinct (project, fault kinds, outcome); non-trivial = at least one fault actually fired
            let key = format!("{}|{}|{}", case["project"], fault_kinds(case), ok);
            nontrivial_distinct.insert(simkit::fnv(key.as_bytes()));
        }
        if samples.len() < 6 && (i % (cases.len() / 6 + 1) == 0) {
            samples.push(json!({"case": case, "outcome": summarize(&val)}));
        }
        for v in vs {
            let class = format!("{}|{}", v.invariant, v.signature);
            *class_counts.entry(class.clone()).or_default() += 1;
            classes.entry(class).or_insert((i, v));
        }
    }

    // ---- violations: minimise, confirm in a fresh process, consult known findings, write replay files
    let mut reported = 0u64;
    let mut known_reported: Vec<String> = vec![];
    let mut violation_lines: Vec<String> = vec![];
    for (class, (idx, v)) in classes.iter().take(25) {
        let minimal = minimise(prop, &projects, &cfg, &cases[*idx], v);
        let confirm = pool::run_one_fresh(&cfg, &minimal);
        let (vs2, _) = judge(prop, &projects, &minimal, &confirm);
        let Some(v2) = vs2.iter().find(|x| x.invariant == v.invariant && x.signature == v.signature) else {
            eprintln!("HARNESS-ERROR: violation class {class} did not reproduce in a fresh process; case {}", cases[*idx]);
            return simkit::EXIT_HARNESS;
        };
        let full_sig = format!("{} :: project={} format={} :: {}", v2.signature, minimal["project"].as_str().unwrap_or(""), corpus::FORMAT, v2.detail);
        if let Some(k) = known::matching(&known_list, prop, &v2.invariant, &full_sig) {
            let line = format!("KNOWN-FINDING: property={prop} {} [{}] ({} cases, format {})", k.what, k.id, class_counts[class], corpus::FORMAT);
            println!("{line}");
            known_reported.push(line);
            continue;
        }
        let _ = std::fs::create_dir_all(&opts.replay_dir);
        let path = format!("{}/{}-{}-{}-{:016x}.json", opts.replay_dir, prop, corpus::label(), opts.seed, simkit::fnv(class.as_bytes()));
        let replay = json!({
            "engine": "sim_fs", "format": corpus::FORMAT, "binary": format!("sim_fs_{}", corpus::label()), "property": prop, "seed": opts.seed, "tier": opts.tier,
            "case": minimal, "original_case": cases[*idx],
            "expected": {"invariant": v2.invariant, "signature": v2.signature, "detail": v2.detail},
            "cases_in_class": class_counts[class],
        });
        std::fs::write(&path, serde_json::to_string_pretty(&replay).unwrap() + "\n").expect("write replay");
        println!("violation: {} :: {} :: {}", v2.invariant, v2.signature, v2.detail);
        let line = format!("VIOLATION property={prop} replay={path}");
        println!("{line}");
        violation_lines.push(line);
        reported += 1;
    }

    let wall = t0.elapsed().as_secs_f64();
    if !opts.out.is_empty() {
        let part = json!({
            "format": corpus::label(), "property": prop, "tier": opts.tier, "seed": opts.seed,
            "evaluations": cases.len(), "distinct_nontrivial": nontrivial_distinct.len(), "distinct_outcomes": outcomes.len(),
            "faults_fired": faults_fired, "probes": probes, "samples": samples, "violations": reported,
            "violation_classes": class_counts, "known_findings": known_reported, "wall_s": wall,
            "projects": projects.iter().map(|p| p.id.clone()).collect::<Vec<_>>(),
            "skipped_projects": skipped_projects,
            "export_digests": export_digests,
            "exhaustive_parts": if opts.tier == "thorough" { json!(["truncate: every offset of every file", "structural: every file x every operator"]) } else { json!(["structural: every file x every operator"]) },
        });
        if let Some(d) = std::path::Path::new(&opts.out).parent() {
            let _ = std::fs::create_dir_all(d);
        }
        std::fs::write(&opts.out, serde_json::to_string_pretty(&part).unwrap() + "\n").expect("write part");
    }
    println!(
        "sim_fs {prop} format={} done: {} cases, {} distinct non-trivial, {} violation classes reported, {} known, {:.1}s",
        corpus::label(),
        cases.len(),
        nontrivial_distinct.len(),
        reported,
        known_reported.len(),
        wall
    );
    if reported > 0 {
        simkit::EXIT_VIOLATION
    } else {
        simkit::EXIT_OK
    }
}

/// Determinism self-test support: one line per case with a hash of the worker's full reply.
fn write_digests(replies: &[Reply]) {
    let Ok(path) = std::env::var("VERIF_DIGEST_OUT") else { return };
    let mut out = String::new();
    for (i, r) in replies.iter().enumerate() {
        let d = match r {
            Reply::Ok(v) => format!("{:016x}", simkit::fnv(v.to_string().as_bytes())),
            Reply::Died(_) => "died".to_string(),
            Reply::Hung => "hung".to_string(),
            Reply::Skipped => "skipped".to_string(),
        };
        out.push_str(&format!("{i} {d}\n"));
    }
    let _ = std::fs::write(format!("{path}.{}", corpus::label()), out);
}

/// Scratch directories of workers that were killed (watchdog) are left behind: remove those whose process is gone.
fn clean_stale_scratch() {
    let Ok(rd) = std::fs::read_dir("/dev/shm") else { return };
    for e in rd.flatten() {
        let name = e.file_name().to_string_lossy().to_string();
        if let Some(pid) = name.strip_prefix("simfs-") {
            if !std::path::Path::new(&format!("/proc/{pid}")).exists() {
                crate::exec::force_remove(&e.path());
            }
        }
    }
}

fn fault_kinds(case: &Value) -> String {
    let mut s = String::new();
    for f in case["faults"].as_array().cloned().unwrap_or_default() {
        s.push_str(f["op"].as_str().unwrap_or(""));
        s.push(':');
        s.push_str(f["file"].as_str().unwrap_or(""));
        s.push(',');
    }
    if let Some(p) = case.get("plan") {
        s.push_str(&format!("stream eio={} eof={}", p["eio_at"], p["eof_at"]));
    }
    if let Some(o) = case.get("out_fault") {
        s.push_str(o["op"].as_str().unwrap_or(""));
        s.push_str(&format!("{}", o["k"]));
    }
    s
}

fn summarize(v: &Option<Value>) -> Value {
    let Some(v) = v else { return json!("worker died or hung") };
    let mut o = serde_json::Map::new();
    for st in ["parse", "build", "codegen", "faulty", "reference", "result"] {
        if let Some(x) = v.get(st) {
            let mut s = x["status"].as_str().unwrap_or("").to_string();
            if let Some(var) = x["variant"].as_str() {
                s.push_str(&format!(" {var}"));
            }
            if let Some(d) = x["display"].as_str() {
                s.push_str(&format!(": {}", d.chars().take(120).collect::<String>()));
            }
            o.insert(st.into(), json!(s));
        }
    }
    if let Some(f) = v.get("fired") {
        o.insert("fired".into(), f.clone());
    }
    if let Some(f) = v.get("sample") {
        o.insert("decoded_sample".into(), f.clone());
    }
    Value::Object(o)
}

fn dedup(projects: Vec<corpus::Project>) -> Vec<corpus::Project> {
    let mut seen = BTreeSet::new();
    let mut out = vec![];
    for p in projects {
        let mut h = String::new();
        for (k, v) in &p.files {
            h.push_str(&format!("{k}:{:x};", simkit::fnv(v)));
        }
        if seen.insert(h) {
            out.push(p);
        }
    }
    out
}

/// Shrink a failing case while the same violation class persists (each candidate runs in a fresh worker).
fn minimise(prop: &str, projects: &[corpus::Project], cfg: &PoolConfig, case: &Value, v: &Violation) -> Value {
    let mut cur = case.clone();
    let mut still = |cand: &Value| -> bool {
        let r = pool::run_one_fresh(cfg, cand);
        let (vs, _) = judge(prop, projects, cand, &r);
        vs.iter().any(|x| x.invariant == v.invariant && x.signature == v.signature)
    };
    // 1. drop faults one at a time
    if let Some(faults) = cur["faults"].as_array().cloned() {
        let mut fs = faults;
        let mut i = 0;
        while fs.len() > 1 && i < fs.len() {
            let mut cand_f = fs.clone();
            cand_f.remove(i);
            let mut cand = cur.clone();
            cand["faults"] = json!(cand_f);
            if still(&cand) {
                fs = cand_f;
                cur = cand;
            } else {
                i += 1;
            }
        }
    }
    if v.invariant == "no_hang" {
        return cur; // every candidate costs a full watchdog period: keep the case as it is
    }
    // 2. simplify flags and stream plans
    for (key, simple) in [("decoys", json!(false)), ("codegen", json!(false))] {
        if cur.get(key).is_some() && cur[key] != simple {
            let mut cand = cur.clone();
            cand[key] = simple;
            if still(&cand) {
                cur = cand;
            }
        }
    }
    if cur.get("plan").is_some() {
        for (key, simple) in [("eintr_calls", json!([])), ("chunks", json!([])), ("bufreader", json!(false))] {
            if cur["plan"][key] != simple {
                let mut cand = cur.clone();
                cand["plan"][key] = simple;
                if still(&cand) {
                    cur = cand;
                }
            }
        }
    }
    // 3. shrink offsets towards 0 by halving (keeps the class, gives a smaller file to look at)
    if let Some(n) = cur["faults"].as_array().map(|a| a.len()) {
        for i in 0..n {
            if cur["faults"][i]["op"] == "truncate" {
                let mut k = cur["faults"][i]["k"].as_u64().unwrap_or(0);
                let mut step = k / 2;
                while step > 0 {
                    let mut cand = cur.clone();
                    cand["faults"][i]["k"] = json!(k - step);
                    if still(&cand) {
                        k -= step;
                        cur = cand;
                    }
                    step /= 2;
                }
            }
        }
    }
    if cur.get("out_fault").is_some() && cur["out_fault"]["op"] == "fsize" {
        let mut k = cur["out_fault"]["k"].as_u64().unwrap_or(0);
        let mut step = k / 2;
        while step > 0 {
            let mut cand = cur.clone();
            cand["out_fault"]["k"] = json!(k - step);
            if still(&cand) {
                k -= step;
                cur = cand;
            }
            step /= 2;
        }
    }
    cur
}

pub fn replay(args: &[String]) -> i32 {
    let Some(path) = args.first() else {
        eprintln!("usage: sim_fs replay FILE");
        return simkit::EXIT_HARNESS;
    };
    let text = std::fs::read_to_string(path).unwrap_or_else(|e| simkit::harness_error(&format!("cannot read {path}: {e}")));
    let rp: Value = serde_json::from_str(&text).unwrap_or_else(|e| simkit::harness_error(&format!("bad replay file: {e}")));
    if rp["format"].as_str() != Some(corpus::FORMAT) || rp["binary"].as_str().is_some_and(|b| b != format!("sim_fs_{}", corpus::label())) {
        simkit::harness_error(&format!("replay file is for format {}, this binary is {}", rp["format"], corpus::FORMAT));
    }
    let prop = rp["property"].as_str().unwrap_or("C09").to_string();
    let projects = dedup(corpus::load());
    let cfg = pool_cfg(1);
    let case = rp["case"].clone();
    let reply = pool::run_one_fresh(&cfg, &case);
    let (vs, val) = judge(&prop, &projects, &case, &reply);
    println!("replay {path}: case {case}");
    println!("outcome: {}", summarize(&val));
    let want_inv = rp["expected"]["invariant"].as_str().unwrap_or("");
    let want_sig = rp["expected"]["signature"].as_str().unwrap_or("");
    if vs.is_empty() {
        println!("no violation on this tree");
        return simkit::EXIT_OK;
    }
    for v in &vs {
        let same = v.invariant == want_inv && v.signature == want_sig;
        println!("violation{}: {} :: {} :: {}", if same { " (same as recorded)" } else { " (different from recorded)" }, v.invariant, v.signature, v.detail);
    }
    println!("VIOLATION property={prop} replay={path}");
    simkit::EXIT_VIOLATION
}
