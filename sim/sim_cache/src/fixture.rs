//! Value pools, expected-option specs and the stateless reference model (direct ICU4X calls).
use fixed_decimal::FixedDecimal;
use icu_calendar::{AnyCalendar, Date, DateTime, Time};
use icu_datetime::options::length;
use icu_decimal::options::{FixedDecimalFormatterOptions, GroupingStrategy};
use icu_experimental::dimension::currency::formatter::{CurrencyCode, CurrencyFormatter};
use icu_experimental::dimension::currency::options::{CurrencyFormatterOptions, Width};
use icu_list::{ListFormatter, ListLength};
use icu_plurals::{PluralCategory, PluralRuleType, PluralRules};
use writeable::Writeable;

#[derive(Debug, Clone, Copy, PartialEq, Eq)]
pub enum Gs { Auto, Never, Always, Min2 }
#[derive(Debug, Clone, Copy, PartialEq, Eq)]
pub enum Cw { Short, Narrow }
#[derive(Debug, Clone, Copy, PartialEq, Eq)]
pub enum Len { Full, Long, Medium, Short }
#[derive(Debug, Clone, Copy, PartialEq, Eq)]
pub enum Lt { And, Or, Unit }
#[derive(Debug, Clone, Copy, PartialEq, Eq)]
pub enum Ls { Wide, Short, Narrow }

#[derive(Debug, Clone, Copy, PartialEq, Eq)]
pub enum Spec {
    Number(Gs),
    Currency(Cw, &'static str),
    Date(Len),
    Time(Len),
    DateTime(Len, Len),
    List(Lt, Ls),
}

impl Spec {
    pub fn kind(&self) -> &'static str {
        match self {
            Spec::Number(_) => "number",
            Spec::Currency(..) => "currency",
            Spec::Date(_) => "date",
            Spec::Time(_) => "time",
            Spec::DateTime(..) => "datetime",
            Spec::List(..) => "list",
        }
    }
}

pub const LOCALES: &[&str] = &["en", "fr", "de", "ja", "ar", "ru", "pt", "pt-PT", "th", "es", "es-419", "es-MX"];

/// One value of every shape; an op uses the accessor that fits its formatter kind.
#[derive(Debug, Clone)]
pub struct Val {
    pub id: usize,
    num: FixedDecimal,
    date: (i32, u8, u8),
    time: (u8, u8, u8),
    list: Vec<&'static str>,
}

impl Val {
    pub fn num(&self) -> FixedDecimal {
        self.num.clone()
    }
    pub fn date(&self) -> Date<AnyCalendar> {
        Date::try_new_iso_date(self.date.0, self.date.1, self.date.2).unwrap().to_any()
    }
    pub fn time(&self) -> Time {
        Time::try_new(self.time.0, self.time.1, self.time.2, 0).unwrap()
    }
    pub fn datetime(&self) -> DateTime<AnyCalendar> {
        DateTime::new(self.date(), self.time())
    }
    pub fn list(&self) -> Vec<&'static str> {
        self.list.clone()
    }
}

pub fn values() -> Vec<Val> {
    let nums: Vec<FixedDecimal> = vec![
        FixedDecimal::from(0),
        FixedDecimal::from(1),
        FixedDecimal::from(-1),
        FixedDecimal::from(999),
        FixedDecimal::from(1000),
        FixedDecimal::from(1234),
        FixedDecimal::from(10000),
        FixedDecimal::from(1234567),
        FixedDecimal::from(-9876543210i64),
        FixedDecimal::from(u64::MAX),
        FixedDecimal::from(200050).multiplied_pow10(-2),
        FixedDecimal::from(5).multiplied_pow10(-1),
        FixedDecimal::from(12345678).multiplied_pow10(-4),
        FixedDecimal::from(1).multiplied_pow10(15),
    ];
    let dates = [(1970, 1, 2), (2000, 2, 29), (2024, 12, 31), (1999, 7, 14), (2038, 1, 19), (1, 1, 1), (2021, 10, 5)];
    let times = [(14, 34, 28), (0, 0, 0), (23, 59, 59), (12, 0, 0), (9, 5, 7)];
    let lists: Vec<Vec<&'static str>> = vec![vec![], vec!["A"], vec!["A", "B"], vec!["A", "B", "C"], vec!["un", "deux", "trois", "quatre"], vec!["x y", "&", "<z>"]];
    (0..nums.len())
        .map(|i| Val { id: i, num: nums[i].clone(), date: dates[i % dates.len()], time: times[i % times.len()], list: lists[i % lists.len()].clone() })
        .collect()
}

pub fn static_values() -> &'static [Val] {
    static V: std::sync::OnceLock<Vec<Val>> = std::sync::OnceLock::new();
    V.get_or_init(values)
}

pub const COUNTS: &[u64] = &[0, 1, 2, 3, 4, 5, 6, 10, 11, 12, 20, 21, 22, 23, 100, 101, 102, 111, 1000, 1000000];

fn icu_locale(loc: &str) -> icu_locid::Locale {
    loc.parse().expect("fixture locale")
}

fn date_len(l: Len) -> length::Date {
    match l {
        Len::Full => length::Date::Full,
        Len::Long => length::Date::Long,
        Len::Medium => length::Date::Medium,
        Len::Short => length::Date::Short,
    }
}

fn time_len(l: Len) -> length::Time {
    match l {
        Len::Full => length::Time::Full,
        Len::Long => length::Time::Long,
        Len::Medium => length::Time::Medium,
        Len::Short => length::Time::Short,
    }
}

/// `reference` for a number / currency spec with an explicit decimal (used for the f64 route).
pub fn reference_with_decimal(spec: Spec, loc: &str, fd: &FixedDecimal) -> Result<String, String> {
    let v = Val { id: 0, num: fd.clone(), date: (2000, 1, 1), time: (0, 0, 0), list: vec![] };
    reference(spec, loc, &v)
}

/// Stateless reference: construct the ICU4X formatter for (locale, options), format, drop it.
/// `Err` when ICU4X itself cannot build such a formatter (then nothing can be compared).
pub fn reference(spec: Spec, loc: &str, v: &Val) -> Result<String, String> {
    let locale = icu_locale(loc);
    let dl = (&locale).into();
    match spec {
        Spec::Number(gs) => {
            let mut o = FixedDecimalFormatterOptions::default();
            o.grouping_strategy = match gs {
                Gs::Auto => GroupingStrategy::Auto,
                Gs::Never => GroupingStrategy::Never,
                Gs::Always => GroupingStrategy::Always,
                Gs::Min2 => GroupingStrategy::Min2,
            };
            let f = icu_decimal::FixedDecimalFormatter::try_new(&dl, o).map_err(|e| e.to_string())?;
            Ok(f.format_to_string(&v.num()))
        }
        Spec::Currency(w, code) => {
            let width = match w {
                Cw::Short => Width::Short,
                Cw::Narrow => Width::Narrow,
            };
            let f = CurrencyFormatter::try_new(&dl, CurrencyFormatterOptions::from(width)).map_err(|e| e.to_string())?;
            let code = CurrencyCode(tinystr::TinyAsciiStr::from_str(code).map_err(|e| e.to_string())?);
            let mut s = String::new();
            f.format_fixed_decimal(&v.num(), code).write_to(&mut s).map_err(|e| e.to_string())?;
            Ok(s)
        }
        Spec::Date(l) => {
            let f = icu_datetime::DateFormatter::try_new_with_length(&dl, date_len(l)).map_err(|e| e.to_string())?;
            f.format_to_string(&v.date()).map_err(|e| e.to_string())
        }
        Spec::Time(l) => {
            let f = icu_datetime::TimeFormatter::try_new_with_length(&dl, time_len(l)).map_err(|e| e.to_string())?;
            Ok(f.format_to_string(&v.time()))
        }
        Spec::DateTime(d, t) => {
            let bag = length::Bag::from_date_time_style(date_len(d), time_len(t));
            let f = icu_datetime::DateTimeFormatter::try_new(&dl, bag.into()).map_err(|e| e.to_string())?;
            f.format_to_string(&v.datetime()).map_err(|e| e.to_string())
        }
        Spec::List(ty, st) => {
            let len = match st {
                Ls::Wide => ListLength::Wide,
                Ls::Short => ListLength::Short,
                Ls::Narrow => ListLength::Narrow,
            };
            let f = match ty {
                Lt::And => ListFormatter::try_new_and_with_length(&dl, len),
                Lt::Or => ListFormatter::try_new_or_with_length(&dl, len),
                Lt::Unit => ListFormatter::try_new_unit_with_length(&dl, len),
            }
            .map_err(|e| e.to_string())?;
            Ok(f.format_to_string(v.list().into_iter()))
        }
    }
}

// whole values beyond the i64 / u64 ranges included: the conversion must not go through an integer type
pub const F64S: &[f64] = &[0.0, 0.5, 1.0, -1.5, 2000.5, 1234.5678, 1e15, 0.1, 99999.99, 1e19, -1e19, 9.3e18, 1.8446744073709552e19, 1e22, -0.0, 4503599627370496.0, f64::NAN, f64::INFINITY, f64::NEG_INFINITY];

/// The documented conversion of an `f64`: `FixedDecimal::try_from_f64` with floating precision.
/// (`Err` for NaN and the infinities: ICU4X has no decimal for them, so there is nothing a formatter could print)
pub fn f64_to_fixed(x: f64) -> Result<FixedDecimal, String> {
    FixedDecimal::try_from_f64(x, fixed_decimal::FloatPrecision::Floating).map_err(|e| format!("ICU4X refuses the value {x}: {e}"))
}

pub fn reference_plural_category(ordinal: bool, loc: &str, count: u64) -> Result<&'static str, String> {
    let locale = icu_locale(loc);
    let ty = if ordinal { PluralRuleType::Ordinal } else { PluralRuleType::Cardinal };
    let rules = PluralRules::try_new(&(&locale).into(), ty).map_err(|e| e.to_string())?;
    Ok(match rules.category_for(count) {
        PluralCategory::Zero => "zero",
        PluralCategory::One => "one",
        PluralCategory::Two => "two",
        PluralCategory::Few => "few",
        PluralCategory::Many => "many",
        PluralCategory::Other => "other",
    })
}

pub fn reference_plural(ordinal: bool, loc: &str, count: u64) -> Result<String, String> {
    let locale = icu_locale(loc);
    let ty = if ordinal { PluralRuleType::Ordinal } else { PluralRuleType::Cardinal };
    let rules = PluralRules::try_new(&(&locale).into(), ty).map_err(|e| e.to_string())?;
    let cat = rules.category_for(count);
    // the fixture declares all six forms for every locale; forms the locale does not use are never selected
    let form = match cat {
        PluralCategory::Zero => "zero",
        PluralCategory::One => "one",
        PluralCategory::Two => "two",
        PluralCategory::Few => "few",
        PluralCategory::Many => "many",
        PluralCategory::Other => "other",
    };
    Ok(if ordinal { format!("{loc}|ord-{form}|{count}") } else { format!("{loc}|{form}|{count}") })
}

/// Render a view like the test-suite's helper does: HTML, comments and markers removed, entities decoded.
pub fn render<T: leptos::prelude::IntoView>(view: T) -> String {
    use leptos::prelude::RenderHtml;
    let html = view.into_view().to_html();
    let mut out = String::new();
    let mut rest = html.as_str();
    loop {
        if let Some(i) = rest.find("<!--") {
            out.push_str(&rest[..i]);
            match rest[i..].find("-->") {
                Some(j) => rest = &rest[i + j + 3..],
                None => break,
            }
        } else {
            out.push_str(rest);
            break;
        }
    }
    let out = out.replace("<!>", "");
    decode_entities(&out)
}

fn decode_entities(s: &str) -> String {
    let mut out = String::new();
    let mut rest = s;
    while let Some(i) = rest.find('&') {
        out.push_str(&rest[..i]);
        let tail = &rest[i..];
        let Some(end) = tail.find(';') else {
            out.push_str(tail);
            return out;
        };
        let ent = &tail[1..end];
        let ch = match ent {
            "amp" => Some('&'),
            "lt" => Some('<'),
            "gt" => Some('>'),
            "quot" => Some('"'),
            "apos" => Some('\''),
            _ => ent
                .strip_prefix("#x")
                .and_then(|h| u32::from_str_radix(h, 16).ok())
                .or_else(|| ent.strip_prefix('#').and_then(|d| d.parse().ok()))
                .and_then(char::from_u32),
        };
        match ch {
            Some(c) => {
                out.push(c);
                rest = &tail[end + 1..];
            }
            None => {
                out.push('&');
                rest = &tail[1..];
            }
        }
    }
    out.push_str(rest);
    out
}
