//! One simulated run: a plan (per-thread operation lists, scheduler policy, provider fault placements)
//! is executed against the real formatter cache under the controlled scheduler and judged against the
//! stateless reference.
use crate::fixture::{self, Spec, Val, COUNTS, LOCALES};
use crate::fixture_table::{self, DUPS, KEYS, SITES};
use crate::i18n::Locale;
use crate::sched::{self, At, Policy};
use serde_json::{json, Value};
use simkit::Rng;
use std::collections::{BTreeMap, BTreeSet};
use std::sync::Mutex;

#[derive(Debug, Clone, Copy, PartialEq, Eq, PartialOrd, Ord)]
pub enum Route {
    /// td_string! on a fixture key
    KeyString,
    /// td! on a fixture key, rendered
    KeyView,
    /// td_format_string! call site
    Site,
    PluralCardinal,
    PluralOrdinal,
    /// `t_format!` view on a reactive context, rendered under two successive locales
    CtxView,
    /// td_display! on a fixture key
    KeyDisplay,
    /// td_string! on a number / currency key with an f64 value (`val` indexes fixture::F64S)
    KeyF64,
    /// td_plural! / td_plural_ordinal! (`idx`: 0 cardinal, 1 ordinal; `val` indexes COUNTS)
    PluralMacro,
    /// t_plural! / tu_plural! (and ordinal) closures on a context whose locale changes (`idx`: 0 cardinal, 1 ordinal)
    CtxPlural,
    /// td_string! on a number / currency key with a typed integer / f32 literal (`val` indexes fixture_table::TYPED)
    KeyTyped,
    /// a formatter text with a repeated argument, read from a translation file (td_string!) and given to td_format_string!:
    /// both must select the same options (`idx` indexes fixture_table::DUPS)
    DupPair,
}

impl Route {
    fn name(self) -> &'static str {
        match self {
            Route::KeyString => "key_string",
            Route::KeyView => "key_view",
            Route::Site => "site",
            Route::PluralCardinal => "plural_cardinal",
            Route::PluralOrdinal => "plural_ordinal",
            Route::CtxView => "ctx_view",
            Route::KeyDisplay => "key_display",
            Route::KeyF64 => "key_f64",
            Route::PluralMacro => "plural_macro",
            Route::CtxPlural => "ctx_plural",
            Route::KeyTyped => "key_typed",
            Route::DupPair => "dup_pair",
        }
    }
    fn from_name(s: &str) -> Option<Route> {
        Some(match s {
            "key_string" => Route::KeyString,
            "key_view" => Route::KeyView,
            "site" => Route::Site,
            "plural_cardinal" => Route::PluralCardinal,
            "plural_ordinal" => Route::PluralOrdinal,
            "ctx_view" => Route::CtxView,
            "key_display" => Route::KeyDisplay,
            "key_f64" => Route::KeyF64,
            "plural_macro" => Route::PluralMacro,
            "ctx_plural" => Route::CtxPlural,
            "key_typed" => Route::KeyTyped,
            "dup_pair" => Route::DupPair,
            _ => return None,
        })
    }
}

#[derive(Debug, Clone, Copy, PartialEq, Eq)]
pub struct Op {
    pub route: Route,
    /// key index, site index, or unused
    pub idx: usize,
    pub locale: usize,
    /// value index (or index into COUNTS for plurals)
    pub val: usize,
}

impl Op {
    pub fn to_json(&self) -> Value {
        let what = match self.route {
            Route::KeyString | Route::KeyView | Route::KeyDisplay | Route::KeyF64 | Route::KeyTyped => KEYS[self.idx].text.trim().to_string(),
            Route::Site | Route::CtxView => SITES[self.idx].text.to_string(),
            Route::DupPair => SITES[DUPS[self.idx].site].text.to_string(),
            _ => String::new(),
        };
        json!({"route": self.route.name(), "idx": self.idx, "locale": LOCALES[self.locale], "val": self.val, "formatter": what})
    }
    pub fn from_json(v: &Value) -> Option<Op> {
        Some(Op {
            route: Route::from_name(v["route"].as_str()?)?,
            idx: v["idx"].as_u64()? as usize,
            locale: LOCALES.iter().position(|l| Some(*l) == v["locale"].as_str())?,
            val: v["val"].as_u64()? as usize,
        })
    }
    fn spec(&self) -> Option<Spec> {
        match self.route {
            Route::KeyString | Route::KeyView | Route::KeyDisplay | Route::KeyF64 | Route::KeyTyped => Some(KEYS[self.idx].spec),
            Route::Site | Route::CtxView => Some(SITES[self.idx].spec),
            _ => None,
        }
    }
    /// second locale of a `CtxView` operation
    pub fn locale2(&self) -> usize {
        (self.locale + 1 + self.val) % LOCALES.len()
    }
    /// identity of the cache slot this operation needs
    fn slot(&self) -> String {
        match self.spec() {
            Some(s) => {
                // time/date formatters of a datetime are their own slot kind
                format!("{:?}@{}", s, LOCALES[self.locale])
            }
            None => format!("{:?}@{}", self.route, LOCALES[self.locale]),
        }
    }
}

#[derive(Debug, Clone)]
pub struct Plan {
    pub threads: Vec<Vec<Op>>,
    pub policy: Policy,
    pub policy_name: String,
    pub fail_at: Vec<u64>,
}

impl Plan {
    pub fn to_json(&self, schedule: &[usize]) -> Value {
        json!({
            "threads": self.threads.iter().map(|t| t.iter().map(|o| o.to_json()).collect::<Vec<_>>()).collect::<Vec<_>>(),
            "policy": self.policy_name,
            "schedule": schedule,
            "fail_at": self.fail_at,
        })
    }
    pub fn from_json(v: &Value) -> Option<Plan> {
        let threads = v["threads"].as_array()?.iter().map(|t| t.as_array().map(|a| a.iter().filter_map(Op::from_json).collect::<Vec<_>>())).collect::<Option<Vec<_>>>()?;
        let schedule: Vec<usize> = v["schedule"].as_array().map(|a| a.iter().filter_map(|x| x.as_u64().map(|n| n as usize)).collect()).unwrap_or_default();
        let fail_at = v["fail_at"].as_array().map(|a| a.iter().filter_map(|x| x.as_u64()).collect()).unwrap_or_default();
        Some(Plan { threads, policy: Policy::Recorded(schedule), policy_name: "recorded".into(), fail_at })
    }
}

fn locale_of(i: usize) -> Locale {
    match LOCALES[i] {
        "en" => Locale::en,
        "fr" => Locale::fr,
        "de" => Locale::de,
        "ja" => Locale::ja,
        "ar" => Locale::ar,
        "ru" => Locale::ru,
        "pt" => Locale::pt,
        "pt-PT" => Locale::pt_PT,
        "th" => Locale::th,
        "es" => Locale::es,
        "es-419" => Locale::es_419,
        _ => Locale::es_MX,
    }
}

/// Draw a plan from the run's PRNG (swarm: kinds, locales, sizes, routes, policy and fault rate vary per run).
pub fn generate(rng: &mut Rng, with_faults: bool) -> Plan {
    let kinds = ["number", "currency", "date", "time", "datetime", "list", "plural"];
    let mut enabled_kinds: Vec<&str> = kinds.iter().copied().filter(|_| rng.chance(1, 2)).collect();
    if enabled_kinds.is_empty() {
        enabled_kinds.push(*rng.pick(&kinds));
    }
    let n_loc = 1 + rng.below(LOCALES.len());
    let mut locs: Vec<usize> = (0..LOCALES.len()).collect();
    rng.shuffle(&mut locs);
    locs.truncate(n_loc);
    let n_threads = *rng.pick(&[1usize, 1, 2, 2, 3, 4]);
    let cap = if rng.chance(1, 4) { 60 } else { 16 };
    let n_ops = 1 + rng.below(cap);
    let n_vals = fixture::values().len();
    // (texts with a repeated argument are only used by the pair route: which occurrence counts is not pinned down)
    let key_pool: Vec<usize> = (0..KEYS.len()).filter(|i| !KEYS[*i].dup && enabled_kinds.contains(&KEYS[*i].spec.kind())).collect();
    let site_pool: Vec<usize> = (0..SITES.len()).filter(|i| !SITES[*i].dup && enabled_kinds.contains(&SITES[*i].spec.kind())).collect();
    let dup_pool: Vec<usize> = (0..DUPS.len()).filter(|i| enabled_kinds.contains(&DUPS[*i].first.kind())).collect();
    let mut ops: Vec<Op> = vec![];
    for _ in 0..n_ops {
        // deliberate collisions: re-use the previous op's locale or its key with another locale
        let prev = ops.last().copied();
        let locale = match prev {
            Some(p) if rng.chance(1, 3) => p.locale,
            _ => *rng.pick(&locs),
        };
        let op = if enabled_kinds.contains(&"plural") && (key_pool.is_empty() || rng.chance(1, 6)) {
            if rng.chance(1, 5) {
                Op { route: Route::CtxPlural, idx: rng.below(2), locale, val: rng.below(COUNTS.len()) }
            } else if rng.chance(1, 3) {
                Op { route: Route::PluralMacro, idx: rng.below(2), locale, val: rng.below(COUNTS.len()) }
            } else {
                Op { route: if rng.chance(1, 2) { Route::PluralCardinal } else { Route::PluralOrdinal }, idx: 0, locale, val: rng.below(COUNTS.len()) }
            }
        } else if key_pool.is_empty() {
            Op { route: Route::PluralCardinal, idx: 0, locale, val: rng.below(COUNTS.len()) }
        } else {
            match prev {
                Some(p) if rng.chance(1, 4) && matches!(p.route, Route::KeyString | Route::KeyView) => Op { locale, val: rng.below(n_vals), ..p },
                _ => {
                    let r = rng.below(10);
                    if r < 5 || site_pool.is_empty() {
                        let idx = *rng.pick(&key_pool);
                        let numeric = matches!(KEYS[idx].spec, Spec::Number(_) | Spec::Currency(..));
                        if numeric && idx % 3 == 0 && rng.chance(1, 6) {
                            Op { route: Route::KeyTyped, idx, locale, val: rng.below(fixture_table::TYPED.len()) }
                        } else if numeric && rng.chance(1, 4) {
                            Op { route: Route::KeyF64, idx, locale, val: rng.below(fixture::F64S.len()) }
                        } else {
                            Op { route: if r < 1 { Route::KeyView } else if r < 2 { Route::KeyDisplay } else { Route::KeyString }, idx, locale, val: rng.below(n_vals) }
                        }
                    } else if r < 7 {
                        Op { route: Route::KeyView, idx: *rng.pick(&key_pool), locale, val: rng.below(n_vals) }
                    } else if !dup_pool.is_empty() && rng.chance(1, 6) {
                        Op { route: Route::DupPair, idx: *rng.pick(&dup_pool), locale, val: rng.below(n_vals) }
                    } else {
                        Op { route: if rng.chance(1, 3) { Route::CtxView } else { Route::Site }, idx: *rng.pick(&site_pool), locale, val: rng.below(n_vals) }
                    }
                }
            }
        };
        ops.push(op);
    }
    let mut threads: Vec<Vec<Op>> = vec![vec![]; n_threads];
    for op in ops {
        let t = rng.below(n_threads);
        threads[t].push(op);
    }
    let (policy, policy_name) = match rng.below(5) {
        0 => (Policy::Lowest, "lowest"),
        1 => (Policy::RoundRobin, "round_robin"),
        2 => {
            let mut prio: Vec<i64> = (0..n_threads as i64).map(|i| i + 10).collect();
            rng.shuffle(&mut prio);
            let d = rng.below(4);
            let change_at = (0..d).map(|_| rng.below(4 * n_ops + 4)).collect();
            (Policy::Pct { prio, change_at }, "pct")
        }
        _ => (Policy::Random, "random"),
    };
    let mut fail_at = vec![];
    if with_faults {
        // most runs make progress between faults: 1-3 failures among the first constructions
        let n_fail = 1 + rng.below(3);
        for _ in 0..n_fail {
            fail_at.push(rng.below(2 * n_ops.min(20) + 1) as u64);
        }
        fail_at.sort();
        fail_at.dedup();
    }
    Plan { threads, policy, policy_name: policy_name.into(), fail_at }
}

// ------------------------------------------------------------------ execution

static LAST_PANIC: Mutex<BTreeMap<usize, String>> = Mutex::new(BTreeMap::new());

thread_local! {
    static PANIC_TID: std::cell::Cell<Option<usize>> = const { std::cell::Cell::new(None) };
}

pub fn install_panic_hook() {
    std::panic::set_hook(Box::new(|info| {
        let msg = if let Some(s) = info.payload().downcast_ref::<&str>() {
            s.to_string()
        } else if let Some(s) = info.payload().downcast_ref::<String>() {
            s.clone()
        } else {
            "<non-string panic payload>".into()
        };
        let loc = info.location().map(|l| format!("{}:{}", l.file().replace("/repo/", ""), l.line())).unwrap_or_default();
        if let Some(tid) = PANIC_TID.with(|t| t.get()) {
            LAST_PANIC.lock().unwrap_or_else(|e| e.into_inner()).insert(tid, format!("{msg} @ {loc}"));
        } else {
            eprintln!("panic outside a simulated thread: {msg} @ {loc}");
        }
    }));
}

#[derive(Debug, Clone)]
pub enum OpResult {
    Ok(String),
    Panic(String),
}

fn exec_op(op: &Op, vals: &[Val]) -> String {
    let loc = locale_of(op.locale);
    match op.route {
        Route::KeyString => fixture_table::call_key_string(op.idx, loc, &vals[op.val]),
        Route::KeyView => fixture_table::call_key_view(op.idx, loc, &vals[op.val]),
        Route::KeyDisplay => fixture_table::call_key_display(op.idx, loc, &vals[op.val]),
        Route::KeyF64 => fixture_table::call_key_f64(op.idx, loc, fixture::F64S[op.val % fixture::F64S.len()]).unwrap_or_default(),
        Route::PluralMacro => fixture_table::call_plural_macro(op.idx == 1, loc, COUNTS[op.val % COUNTS.len()]).to_string(),
        Route::Site => fixture_table::call_site(op.idx, loc, &vals[op.val]),
        Route::DupPair => {
            // the same formatter text read from a translation file and given to `td_format_string!`
            let d = &DUPS[op.idx];
            let from_file = fixture_table::call_key_string(d.key, loc, &vals[op.val]);
            let from_file = from_file.split_once('|').map(|(_, s)| s.to_string()).unwrap_or(from_file);
            let from_macro = fixture_table::call_site(d.site, loc, &vals[op.val]);
            format!("{from_file}\u{1}{from_macro}")
        }
        Route::CtxView => {
            use leptos::prelude::*;
            use leptos_i18n::context::{init_i18n_context_with_options, I18nContextOptions, UseLocalesOptions};
            let owner = Owner::new();
            let out = owner.with(|| {
                let opts = I18nContextOptions::<Locale>::default().enable_cookie(false).ssr_lang_header_getter(UseLocalesOptions::default().ssr_lang_header_getter(|| Some(String::new())));
                let i18n = init_i18n_context_with_options(opts);
                i18n.set_locale(loc);
                let view = fixture_table::call_site_ctx(op.idx, i18n, op.val);
                // created under the first locale, rendered only after the change
                let untracked = fixture_table::call_site_ctx_untracked(op.idx, i18n, op.val);
                let first = view();
                i18n.set_locale(locale_of(op.locale2()));
                let second = view();
                let strings = fixture_table::call_site_ctx_string(op.idx, i18n, &vals[op.val]);
                let ustrings = fixture_table::call_site_ctx_string_untracked(op.idx, i18n, &vals[op.val]);
                let late = untracked();
                format!("{first}\u{1}{second}\u{1}{strings}\u{1}{ustrings}\u{1}{late}")
            });
            owner.cleanup();
            out
        }
        Route::KeyTyped => fixture_table::call_key_typed(op.idx, loc, op.val % fixture_table::TYPED.len()).unwrap_or_default(),
        Route::CtxPlural => {
            use leptos::prelude::*;
            use leptos_i18n::context::{init_i18n_context_with_options, I18nContextOptions, UseLocalesOptions};
            let owner = Owner::new();
            let out = owner.with(|| {
                let opts = I18nContextOptions::<Locale>::default().enable_cookie(false).ssr_lang_header_getter(UseLocalesOptions::default().ssr_lang_header_getter(|| Some(String::new())));
                let i18n = init_i18n_context_with_options(opts);
                i18n.set_locale(loc);
                let (tracked, untracked) = fixture_table::call_ctx_plural(op.idx == 1, i18n, COUNTS[op.val % COUNTS.len()]);
                let first = tracked();
                i18n.set_locale(locale_of(op.locale2()));
                let (_, untracked2) = fixture_table::call_ctx_plural(op.idx == 1, i18n, COUNTS[op.val % COUNTS.len()]);
                format!("{first}\u{1}{untracked}\u{1}{}\u{1}{untracked2}", tracked())
            });
            owner.cleanup();
            out
        }
        Route::PluralCardinal => fixture_table::call_plural(false, loc, COUNTS[op.val]),
        Route::PluralOrdinal => fixture_table::call_plural(true, loc, COUNTS[op.val]),
    }
}

/// Which declaration a key shows for a locale: its own; `es`'s for the locales that inherit from `es`; else the default's.
fn declared(idx: usize, loc: &'static str) -> (&'static str, Spec) {
    let k = &KEYS[idx];
    match k.es_spec {
        Some(es) if ["es", "es-419", "es-MX"].contains(&loc) => ("es", es),
        _ if k.only_in_default => ("en", k.spec),
        _ => (loc, k.spec),
    }
}

/// Reference values are a pure function of (spec, locale, value): memoised across runs.
static REF_MEMO: Mutex<BTreeMap<String, Result<String, String>>> = Mutex::new(BTreeMap::new());

pub fn expected(op: &Op, vals: &[Val]) -> Result<String, String> {
    let key = format!("{:?}|{}|{}|{}", op.route, op.idx, op.locale, op.val);
    if let Some(r) = REF_MEMO.lock().unwrap().get(&key) {
        return r.clone();
    }
    let loc = LOCALES[op.locale];
    let r = match op.route {
        // a key declared only in the default locale shows the default locale's text, formatted for the rendered locale
        Route::KeyString => fixture::reference(declared(op.idx, loc).1, loc, &vals[op.val]).map(|s| format!("{}|{s}", declared(op.idx, loc).0)),
        // tachys renders an empty dynamic text node as a single space (so that the node exists for hydration):
        // that is Leptos' HTML rendering, not the formatter's output
        Route::KeyView => {
            let tag = declared(op.idx, loc).0;
            fixture::reference(declared(op.idx, loc).1, loc, &vals[op.val]).map(|s| if s.is_empty() { format!("{tag}| ") } else { format!("{tag}|{s}") })
        }
        Route::KeyDisplay => fixture::reference(declared(op.idx, loc).1, loc, &vals[op.val]).map(|s| format!("{}|{s}", declared(op.idx, loc).0)),
        Route::KeyF64 => {
            fixture::f64_to_fixed(fixture::F64S[op.val % fixture::F64S.len()])
                .and_then(|fd| fixture::reference_with_decimal(declared(op.idx, loc).1, loc, &fd).map(|s| format!("{}|{s}", declared(op.idx, loc).0)))
        }
        Route::PluralMacro => fixture::reference_plural_category(op.idx == 1, loc, COUNTS[op.val % COUNTS.len()]).map(String::from),
        Route::Site => fixture::reference(SITES[op.idx].spec, loc, &vals[op.val]),
        // "first occurrence counts" \u{2} "last occurrence counts": the judge accepts either, for both routes alike
        Route::DupPair => match (fixture::reference(DUPS[op.idx].first, loc, &vals[op.val]), fixture::reference(DUPS[op.idx].last, loc, &vals[op.val])) {
            (Ok(a), Ok(b)) => Ok(format!("{a}\u{2}{b}")),
            (Err(e), _) | (_, Err(e)) => Err(e),
        },
        Route::CtxView => {
            let view = |l: &str| fixture::reference(SITES[op.idx].spec, l, &vals[op.val]).map(|s| if s.is_empty() { " ".to_string() } else { s });
            let plain = fixture::reference(SITES[op.idx].spec, LOCALES[op.locale2()], &vals[op.val]);
            match (view(loc), view(LOCALES[op.locale2()]), plain) {
                (Ok(a), Ok(b), Ok(s)) => Ok(format!("{a}\u{1}{b}\u{1}{s}\u{2}{s}\u{1}{s}\u{2}{s}\u{1}{b}")),
                (Err(e), _, _) | (_, Err(e), _) | (_, _, Err(e)) => Err(e),
            }
        }
        Route::KeyTyped => {
            let dec = fixture_table::TYPED[op.val % fixture_table::TYPED.len()].1;
            let fd: fixed_decimal::FixedDecimal = dec.parse().expect("hand-written decimal");
            fixture::reference_with_decimal(declared(op.idx, loc).1, loc, &fd).map(|s| format!("{}|{s}", declared(op.idx, loc).0))
        }
        Route::CtxPlural => {
            let c = COUNTS[op.val % COUNTS.len()];
            let l2 = LOCALES[op.locale2()];
            match (fixture::reference_plural_category(op.idx == 1, loc, c), fixture::reference_plural_category(op.idx == 1, l2, c)) {
                (Ok(a), Ok(b)) => Ok(format!("{a}\u{1}{a}\u{1}{b}\u{1}{b}")),
                (Err(e), _) | (_, Err(e)) => Err(e),
            }
        }
        Route::PluralCardinal => fixture::reference_plural(false, loc, COUNTS[op.val]),
        Route::PluralOrdinal => fixture::reference_plural(true, loc, COUNTS[op.val]),
    };
    REF_MEMO.lock().unwrap().insert(key, r.clone());
    r
}

pub struct Outcome {
    pub schedule: Vec<(usize, At, usize)>,
    pub results: Vec<Vec<(OpResult, bool)>>,
    pub violations: Vec<Value>,
    pub stats: Value,
}

pub fn execute(plan: &Plan, rng: &mut Rng) -> Result<Outcome, String> {
    let vals = fixture::values();
    // ---- fresh cache, fresh fault state
    leptos_i18n::verif_hooks::reset_formatters();
    #[cfg(feature = "faulty")]
    {
        let mut f = crate::provider::FAULTS.lock().unwrap_or_else(|e| e.into_inner());
        f.counter = 0;
        f.fail_at = plan.fail_at.iter().copied().collect();
        f.fired.clear();
        f.constructions.clear();
    }
    LAST_PANIC.lock().unwrap_or_else(|e| e.into_inner()).clear();
    let n = plan.threads.len();
    let s = sched::sched();
    s.begin(n);
    let mut policy = plan.policy.clone();
    let vals_ref = &vals;
    let (schedule, results) = std::thread::scope(|scope| {
        let mut handles = vec![];
        for (tid, ops) in plan.threads.iter().enumerate() {
            handles.push(scope.spawn(move || {
                PANIC_TID.with(|t| t.set(Some(tid)));
                s.enter_thread(tid);
                let mut out: Vec<(OpResult, bool)> = vec![];
                for op in ops {
                    #[cfg(feature = "faulty")]
                    crate::provider::OP_FAILED.with(|f| f.set(false));
                    let r = std::panic::catch_unwind(std::panic::AssertUnwindSafe(|| exec_op(op, vals_ref)));
                    #[cfg(feature = "faulty")]
                    let failed = crate::provider::OP_FAILED.with(|f| f.get());
                    #[cfg(not(feature = "faulty"))]
                    let failed = false;
                    match r {
                        Ok(sv) => out.push((OpResult::Ok(sv), failed)),
                        Err(_) => {
                            let msg = LAST_PANIC.lock().unwrap_or_else(|e| e.into_inner()).remove(&tid).unwrap_or_default();
                            out.push((OpResult::Panic(msg), failed));
                        }
                    }
                }
                s.finish_thread(tid);
                out
            }));
        }
        let total_ops: usize = plan.threads.iter().map(|t| t.len()).sum();
        let schedule = s.drive(&mut policy, rng, 16 * total_ops + 16 * n + 64);
        if schedule.is_err() {
            // cannot join parked threads: this is a harness failure, abort the process
            eprintln!("HARNESS-ERROR: scheduler: {:?}", schedule);
            std::process::exit(2);
        }
        let results: Vec<Vec<(OpResult, bool)>> = handles.into_iter().map(|h| h.join().expect("simulated thread must not die")).collect();
        (schedule.unwrap(), results)
    });
    s.end();

    // ---- judge
    let mut violations = vec![];
    let mut n_cmp = 0u64;
    let mut n_unsupported = 0u64;
    let mut n_fault_panics = 0u64;
    let mut n_after_fault_ok = 0u64;
    let mut any_fault_fired = false;
    // per-thread position of each op in the global order is given by the schedule; for reporting we use (tid, index)
    for (tid, (ops, res)) in plan.threads.iter().zip(results.iter()).enumerate() {
        for (i, (op, (r, own_construction_failed))) in ops.iter().zip(res.iter()).enumerate() {
            let exp = expected(op, &vals);
            if *own_construction_failed {
                any_fault_fired = true;
            }
            match (r, exp) {
                (OpResult::Ok(got), Ok(want)) => {
                    n_cmp += 1;
                    if *own_construction_failed {
                        violations.push(json!({
                            "invariant": "fault_not_wrong_data", "signature": format!("{}: a value was returned although the provider failed the construction", op.slot().split('@').next().unwrap_or("")),
                            "detail": format!("thread {tid} op {i} {}: got {got:?}", op.to_json()),
                        }));
                    } else if op.route == Route::DupPair {
                        let (first, last) = want.split_once('\u{2}').unwrap_or((&want, &want));
                        let (from_file, from_macro) = got.split_once('\u{1}').unwrap_or((got, got));
                        let kind = DUPS[op.idx].first.kind();
                        if from_file != from_macro {
                            violations.push(json!({
                                "invariant": "matches_reference", "signature": format!("{kind}: the same formatter text selects different options in a translation file and in td_format_string!"),
                                "detail": format!("thread {tid} op {i} {}: file {from_file:?}, macro {from_macro:?}", op.to_json()),
                            }));
                        } else if from_file != first && from_file != last {
                            violations.push(json!({
                                "invariant": "matches_reference", "signature": format!("{kind} via dup_pair: a repeated argument selects neither of its two values"),
                                "detail": format!("thread {tid} op {i} {}: got {from_file:?}, first {first:?}, last {last:?}", op.to_json()),
                            }));
                        } else if any_fault_fired {
                            n_after_fault_ok += 1;
                        }
                    } else if got != &want {
                        let kind = op.spec().map(|s| s.kind()).unwrap_or("plural");
                        violations.push(json!({
                            "invariant": "matches_reference", "signature": format!("{kind} via {}: output differs from stateless ICU4X with the documented options", op.route.name()),
                            "detail": format!("thread {tid} op {i} {}: got {got:?}, reference {want:?}", op.to_json()),
                        }));
                    } else if any_fault_fired {
                        n_after_fault_ok += 1;
                    }
                }
                (OpResult::Ok(got), Err(e)) => {
                    n_unsupported += 1;
                    violations.push(json!({
                        "invariant": "matches_reference", "signature": "a value was produced for options ICU4X cannot build a formatter for",
                        "detail": format!("thread {tid} op {i} {}: got {got:?}, ICU4X says {e}", op.to_json()),
                    }));
                }
                (OpResult::Panic(msg), Ok(_)) => {
                    if *own_construction_failed {
                        n_fault_panics += 1; // allowed: the operation the fault hit may fail
                    } else {
                        let class = if msg.contains("PoisonError") { "PoisonError (cache lock poisoned by an earlier failure)".to_string() } else { msg.split(" @ ").next().unwrap_or("").chars().take(80).collect() };
                        violations.push(json!({
                            "invariant": "no_unexpected_panic", "signature": format!("operation panicked although its own construction was not failed: {class}"),
                            "detail": format!("thread {tid} op {i} {}: {msg}", op.to_json()),
                        }));
                    }
                }
                (OpResult::Panic(_), Err(_)) => {
                    // ICU4X cannot build this formatter at all: nothing to compare, the library reports it by panicking
                    n_unsupported += 1;
                }
            }
        }
    }
    #[cfg(feature = "faulty")]
    let (fired, constructions) = {
        let f = crate::provider::FAULTS.lock().unwrap_or_else(|e| e.into_inner());
        (f.fired.clone(), f.constructions.clone())
    };
    #[cfg(not(feature = "faulty"))]
    let (fired, constructions): (Vec<(u64, String)>, Vec<String>) = (vec![], vec![]);
    // model-side view of the cache: distinct slots in first-use order, derived from the executed order
    let mut slots: BTreeSet<String> = BTreeSet::new();
    for t in &plan.threads {
        for op in t {
            slots.insert(op.slot());
        }
    }
    let multi = plan.threads.iter().filter(|t| !t.is_empty()).count() > 1;
    let contended = schedule.iter().filter(|(_, _, n)| *n > 1).count();
    let mut routes: BTreeMap<&'static str, u64> = BTreeMap::new();
    for op in plan.threads.iter().flatten() {
        *routes.entry(op.route.name()).or_default() += 1;
    }
    let stats = json!({
        "routes": routes,
        "ops": plan.threads.iter().map(|t| t.len()).sum::<usize>(), "threads": n, "compared": n_cmp, "unsupported_by_icu": n_unsupported,
        "faults_fired": fired.len(), "fault_panics_allowed": n_fault_panics, "ok_after_fault": n_after_fault_ok,
        "constructions": constructions.len(), "distinct_slots": slots.len(), "steps": schedule.len(),
        "choice_points_with_alternatives": contended, "multi_thread": multi, "policy": plan.policy_name,
        "fired": fired.iter().map(|(n, w)| format!("#{n} {w}")).collect::<Vec<_>>(),
        "construction_order_hash": format!("{:016x}", simkit::fnv(constructions.join(";").as_bytes())),
    });
    Ok(Outcome { schedule, results, violations, stats })
}
