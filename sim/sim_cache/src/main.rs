//! sim_cache: operation histories x caller threads (parked at the guarded hook points, released one at a
//! time by a seeded scheduler) x provider faults over the process-global formatter cache (C18).
//! Two builds: `compiled` (leptos_i18n with icu_compiled_data) and `faulty` (custom fault-injecting provider).
#![allow(clippy::all)]
leptos_i18n::load_locales!();

mod fixture;
#[allow(unused_imports, non_snake_case)]
mod fixture_table;
#[cfg(feature = "faulty")]
mod provider;
mod run;
mod sched;

use serde_json::{json, Value};
use simkit::pool::{self, PoolConfig, Reply};
use simkit::{known, Rng};
use std::collections::{BTreeMap, BTreeSet};
use std::io::{BufRead, Write};
use std::time::{Duration, Instant};

const BUILD: &str = if cfg!(feature = "faulty") { "sim_cache_faulty" } else { "sim_cache_compiled" };

/// Reactive effects are not part of what this engine decides: their tasks are dropped.
struct DropTasks;

impl any_spawner::CustomExecutor for DropTasks {
    fn spawn(&self, _fut: any_spawner::PinnedFuture<()>) {}
    fn spawn_local(&self, _fut: any_spawner::PinnedLocalFuture<()>) {}
    fn poll_local(&self) {}
}

fn setup_process() {
    let _ = any_spawner::Executor::init_custom_executor(DropTasks);
    run::install_panic_hook();
    sched::install_hook();
    #[cfg(feature = "faulty")]
    {
        // the boot-time provider first, then the real one: the second call replaces the first
        leptos_i18n::custom_provider::set_icu_data_provider(provider::BootProvider);
        leptos_i18n::custom_provider::set_icu_data_provider(provider::FaultyProvider);
    }
}

/// Execute one request: {"seed": S, "run": i, "faults": bool} or {"plan": {...}}.
fn handle(req: &Value) -> Value {
    let (plan, mut rng) = if let Some(p) = req.get("plan") {
        let Some(plan) = run::Plan::from_json(p) else { return json!({"harness_error": "bad plan"}) };
        (plan, Rng::new(0))
    } else {
        let seed = req["seed"].as_u64().unwrap_or(0);
        let i = req["run"].as_u64().unwrap_or(0);
        let mut rng = Rng::for_run(seed, i);
        let plan = run::generate(&mut rng, req["faults"].as_bool().unwrap_or(false) && cfg!(feature = "faulty"));
        (plan, rng)
    };
    match run::execute(&plan, &mut rng) {
        Err(e) => json!({"harness_error": e}),
        Ok(out) => {
            let schedule: Vec<usize> = out.schedule.iter().map(|(t, _, _)| *t).collect();
            let sched_sig: String = out.schedule.iter().map(|(t, at, _)| format!("{t}{}", match at { sched::At::Start => 's', sched::At::BeforeLock => 'b', sched::At::Acquired => 'a', sched::At::Released => 'r' })).collect();
            json!({
                "plan": plan.to_json(&schedule),
                "violations": out.violations,
                "stats": out.stats,
                "interleaving": format!("{:016x}", simkit::fnv(sched_sig.as_bytes())),
                "results": out.results.iter().map(|t| t.iter().map(|(r, f)| match r {
                    run::OpResult::Ok(s) => json!({"ok": s, "own_construction_failed": f}),
                    run::OpResult::Panic(m) => json!({"panic": m, "own_construction_failed": f}),
                }).collect::<Vec<_>>()).collect::<Vec<_>>(),
            })
        }
    }
}

fn worker() {
    setup_process();
    let stdin = std::io::stdin();
    let stdout = std::io::stdout();
    for line in stdin.lock().lines() {
        let Ok(line) = line else { break };
        if line.trim().is_empty() {
            continue;
        }
        let reply = match serde_json::from_str::<Value>(&line) {
            Ok(req) => handle(&req),
            Err(e) => json!({"harness_error": format!("bad request: {e}")}),
        };
        let mut o = stdout.lock();
        let _ = writeln!(o, "{}", reply);
        let _ = o.flush();
    }
}

struct Opts {
    tier: String,
    seed: u64,
    evidence: String,
    replay_dir: String,
    known: String,
    workers: usize,
}

fn parse_opts(args: &[String]) -> Opts {
    let mut o = Opts {
        tier: std::env::var("VERIF_TIER").unwrap_or_else(|_| "quick".into()),
        seed: 0,
        evidence: "/verif/evidence/C18.json".into(),
        replay_dir: "/verif/replays".into(),
        known: "/verif/known_findings.json".into(),
        workers: std::thread::available_parallelism().map(|n| n.get()).unwrap_or(4),
    };
    let mut seed_set = false;
    let mut i = 0;
    while i < args.len() {
        let v = args.get(i + 1).cloned().unwrap_or_default();
        match args[i].as_str() {
            "--tier" => o.tier = v,
            "--seed" => {
                o.seed = v.parse().unwrap_or(0);
                seed_set = true;
            }
            "--evidence" => o.evidence = v,
            "--replay-dir" => o.replay_dir = v,
            "--known" => o.known = v,
            "--workers" => o.workers = v.parse().unwrap_or(o.workers),
            _ => {
                i += 1;
                continue;
            }
        }
        i += 2;
    }
    if !seed_set {
        o.seed = simkit::seed_from_env(if o.tier == "thorough" { 20260926 } else { 1 });
    }
    o
}

fn sibling(name: &str) -> String {
    let me = std::env::current_exe().expect("current exe");
    me.parent().expect("exe dir").join(name).to_string_lossy().to_string()
}

fn pool_for(binary: &str, workers: usize) -> PoolConfig {
    PoolConfig { exe: sibling(binary), args: vec!["worker".into()], envs: vec![], workers, watchdog: Duration::from_secs(120), max_lost: 24 }
}

fn violations_of(reply: &Reply) -> Vec<(String, String, String)> {
    match reply {
        Reply::Ok(v) => {
            if let Some(e) = v.get("harness_error") {
                simkit::harness_error(&format!("worker: {e}"));
            }
            v["violations"]
                .as_array()
                .map(|a| a.iter().map(|x| (x["invariant"].as_str().unwrap_or("").to_string(), x["signature"].as_str().unwrap_or("").to_string(), x["detail"].as_str().unwrap_or("").to_string())).collect())
                .unwrap_or_default()
        }
        Reply::Died(info) => vec![("no_abort".into(), "worker process died".into(), info.clone())],
        Reply::Hung => vec![("no_hang".into(), "no reply within watchdog (deadlock or livelock)".into(), String::new())],
        Reply::Skipped => vec![],
    }
}

/// ddmin over the flattened (thread, op) list and the fault list; every candidate runs in a fresh process.
fn minimise(cfg: &PoolConfig, plan: &Value, inv: &str, sig: &str) -> Value {
    let fails = |cand: &Value| -> bool {
        let r = pool::run_one_fresh(cfg, &json!({"plan": cand}));
        violations_of(&r).iter().any(|(i, s, _)| i == inv && s == sig)
    };
    let mut flat: Vec<(usize, Value)> = vec![];
    for (t, ops) in plan["threads"].as_array().cloned().unwrap_or_default().iter().enumerate() {
        for op in ops.as_array().cloned().unwrap_or_default() {
            flat.push((t, op));
        }
    }
    let n_threads = plan["threads"].as_array().map(|a| a.len()).unwrap_or(1);
    let build = |flat: &[(usize, Value)], fail_at: &Value, schedule: &Value| -> Value {
        let mut threads: Vec<Vec<Value>> = vec![vec![]; n_threads];
        for (t, op) in flat {
            threads[*t].push(op.clone());
        }
        json!({"threads": threads, "schedule": schedule, "fail_at": fail_at, "policy": "recorded"})
    };
    let sched0 = plan["schedule"].clone();
    let mut fail_at = plan["fail_at"].clone();
    // 1. drop operations (schedule choices that no longer apply fall back to the lowest enabled thread)
    let mut f1 = |items: &[(usize, Value)]| fails(&build(items, &fail_at, &sched0));
    let flat = simkit::ddmin::ddmin(flat, &mut f1);
    // 2. drop faults
    if let Some(fa) = fail_at.as_array().cloned() {
        let mut f2 = |items: &[Value]| fails(&build(&flat, &json!(items), &sched0));
        if !fa.is_empty() {
            let kept = simkit::ddmin::ddmin(fa, &mut f2);
            fail_at = json!(kept);
        }
    }
    // 3. simplest schedule: lowest enabled thread first
    let cand = build(&flat, &fail_at, &json!([]));
    let cand = if fails(&cand) { cand } else { build(&flat, &fail_at, &sched0) };
    // 4. canonical form: re-run once and store the schedule actually taken
    match pool::run_one_fresh(cfg, &json!({"plan": cand})) {
        Reply::Ok(v) if v.get("plan").is_some() => v["plan"].clone(),
        _ => cand,
    }
}

fn check(args: &[String]) -> i32 {
    let prop = args.first().cloned().unwrap_or_default();
    if prop != "C18" {
        simkit::harness_error("sim_cache serves C18 only");
    }
    let opts = parse_opts(&args[1..]);
    let t0 = Instant::now();
    println!("sim_cache C18 tier={} VERIF_SEED={} workers={}", opts.tier, opts.seed, opts.workers);
    let thorough = opts.tier == "thorough";
    let batches: Vec<(&str, &str, bool, usize)> = vec![
        // (label, binary, faults, runs)
        ("fault_free_compiled_data", "sim_cache_compiled", false, if thorough { 400_000 } else { 30_000 }),
        ("fault_free_custom_provider", "sim_cache_faulty", false, if thorough { 200_000 } else { 10_000 }),
        ("provider_faults", "sim_cache_faulty", true, if thorough { 400_000 } else { 30_000 }),
    ];
    let known_list = known::load(&opts.known);
    let mut evaluations = 0u64;
    let mut interleavings: BTreeSet<String> = BTreeSet::new();
    let mut states: BTreeSet<String> = BTreeSet::new();
    let mut nontrivial: BTreeSet<u64> = BTreeSet::new();
    let mut probes: BTreeMap<String, u64> = BTreeMap::new();
    let mut faults_fired: BTreeMap<String, u64> = BTreeMap::new();
    let mut samples: Vec<Value> = vec![];
    let mut steps = 0u64;
    let mut reported = 0u64;
    let mut known_reported: Vec<String> = vec![];
    let mut class_counts: BTreeMap<String, u64> = BTreeMap::new();
    let mut batch_info = vec![];
    for (label, binary, faults, runs) in &batches {
        let cfg = pool_for(binary, opts.workers);
        let bseed = opts.seed ^ simkit::fnv(label.as_bytes());
        let reqs: Vec<Value> = (0..*runs).map(|i| json!({"seed": bseed, "run": i, "faults": faults})).collect();
        let tb = Instant::now();
        let replies = pool::run_all(&cfg, &reqs);
        write_digests(label, &replies);
        let mut classes: BTreeMap<String, (usize, String, String, String)> = BTreeMap::new();
        for (i, r) in replies.iter().enumerate() {
            evaluations += 1;
            if let Reply::Ok(v) = r {
                let st = &v["stats"];
                steps += st["steps"].as_u64().unwrap_or(0);
                interleavings.insert(format!("{}:{}", v["interleaving"].as_str().unwrap_or(""), st["ops"]));
                states.insert(st["construction_order_hash"].as_str().unwrap_or("").to_string());
                let ops = st["ops"].as_u64().unwrap_or(0);
                // non-trivial: at least two operations compete for the cache (collision or several threads) or a fault fired
                if st["distinct_slots"].as_u64().unwrap_or(0) < ops || st["multi_thread"] == true || st["faults_fired"].as_u64().unwrap_or(0) > 0 {
                    nontrivial.insert(simkit::fnv(v["plan"].to_string().as_bytes()));
                }
                for k in ["compared", "unsupported_by_icu", "fault_panics_allowed", "ok_after_fault", "constructions", "choice_points_with_alternatives"] {
                    *probes.entry(k.to_string()).or_default() += st[k].as_u64().unwrap_or(0);
                }
                for (r, k) in st["routes"].as_object().cloned().unwrap_or_default() {
                    *probes.entry(format!("ops_via_{r}")).or_default() += k.as_u64().unwrap_or(0);
                }
                *probes.entry(format!("runs_with_{}_threads", st["threads"])).or_default() += 1;
                *probes.entry(format!("policy_{}", st["policy"].as_str().unwrap_or(""))).or_default() += 1;
                if st["faults_fired"].as_u64().unwrap_or(0) > 0 {
                    *probes.entry("runs_where_provider_failed_inside_the_lock".into()).or_default() += 1;
                }
                for f in st["fired"].as_array().cloned().unwrap_or_default() {
                    let kind = f.as_str().unwrap_or("").split(' ').nth(1).unwrap_or("").to_string();
                    *faults_fired.entry(format!("provider_failure_{kind}")).or_default() += 1;
                }
                if samples.len() < 6 && i % (*runs / 2 + 1) == 0 {
                    samples.push(json!({"batch": label, "plan": v["plan"], "results": v["results"], "stats": st}));
                }
            }
            for (inv, sig, detail) in violations_of(r) {
                let class = format!("{inv}|{sig}");
                *class_counts.entry(format!("{label}|{class}")).or_default() += 1;
                classes.entry(class).or_insert((i, inv, sig, detail));
            }
        }
        batch_info.push(json!({"batch": label, "binary": binary, "runs": runs, "wall_s": tb.elapsed().as_secs_f64(), "violation_classes": classes.len()}));
        for (class, (idx, inv, sig, detail)) in classes.iter().take(10) {
            let Reply::Ok(v) = &replies[*idx] else {
                println!("violation: {inv} :: {sig} :: {detail}");
                let path = format!("{}/C18-{}-{}-{:016x}.json", opts.replay_dir, label, opts.seed, simkit::fnv(class.as_bytes()));
                let _ = std::fs::create_dir_all(&opts.replay_dir);
                std::fs::write(&path, serde_json::to_string_pretty(&json!({"engine": "sim_cache", "binary": binary, "property": "C18", "request": reqs[*idx], "expected": {"invariant": inv, "signature": sig}})).unwrap()).expect("write replay");
                println!("VIOLATION property=C18 replay={path}");
                reported += 1;
                continue;
            };
            let minimal = minimise(&cfg, &v["plan"], inv, sig);
            let confirm = pool::run_one_fresh(&cfg, &json!({"plan": minimal}));
            let again = violations_of(&confirm);
            let Some((_, _, detail2)) = again.iter().find(|(i, s, _)| i == inv && s == sig) else {
                eprintln!("HARNESS-ERROR: violation class {class} did not reproduce from its minimised plan in a fresh process");
                return simkit::EXIT_HARNESS;
            };
            let full_sig = format!("{sig} :: batch={label} :: {detail2}");
            if let Some(k) = known::matching(&known_list, "C18", inv, &full_sig) {
                let line = format!("KNOWN-FINDING: property=C18 {} [{}] ({} runs in batch {label})", k.what, k.id, class_counts[&format!("{label}|{class}")]);
                println!("{line}");
                known_reported.push(line);
                continue;
            }
            let _ = std::fs::create_dir_all(&opts.replay_dir);
            let path = format!("{}/C18-{}-{}-{:016x}.json", opts.replay_dir, label, opts.seed, simkit::fnv(class.as_bytes()));
            let rp = json!({
                "engine": "sim_cache", "binary": binary, "property": "C18", "seed": opts.seed, "tier": opts.tier, "batch": label,
                "plan": minimal, "original_request": reqs[*idx], "original_plan": v["plan"],
                "expected": {"invariant": inv, "signature": sig, "detail": detail2},
            });
            std::fs::write(&path, serde_json::to_string_pretty(&rp).unwrap() + "\n").expect("write replay");
            println!("violation: {inv} :: {sig} :: {detail2}");
            println!("VIOLATION property=C18 replay={path}");
            reported += 1;
        }
    }
    let wall = t0.elapsed().as_secs_f64();
    let mut ev = simkit::evidence::Evidence::default();
    ev.property_id = "C18".into();
    ev.tier = opts.tier.clone();
    ev.seed = opts.seed;
    ev.level = "exploration".into();
    ev.evaluations = evaluations;
    ev.distinct_nontrivial = nontrivial.len() as u64;
    ev.rule = "a run = seeded plan: 1-60 formatting operations (fixture keys through td_string!/td!/td_display! with FixedDecimal, f64, f32 and every integer type, td_format_string! call sites, t_format!/tu_format! families and t_plural!/tu_plural! on a context whose locale changes, plural keys, td_plural!) over 12 locales (incl. pt / pt-PT, RTL ar, th with its Buddhist calendar, the es / es-419 / es-MX inherits chain) x 114 formatter texts (the complete documented option matrix incl. omitted/unknown/duplicated/colon-less/whitespace variants; texts that repeat an argument with two recognised values are judged for agreement between a translation file and td_format_string!, route dup_pair), split over 1-4 caller threads, a scheduler policy (random / PCT / round-robin / lowest) deciding which parked thread proceeds at every hook point around the cache lock, and (fault batch) 1-3 provider failures placed at the n-th construction. Every operation's output is compared with a stateless ICU4X formatter built from the documented options. A run is non-trivial when operations compete for cache slots (same slot twice), several threads are live, or a fault fired; distinct = distinct plan.".into();
    ev.samples = samples;
    ev.faults_fired = faults_fired;
    ev.probes = probes;
    ev.wall_s = wall;
    ev.violations = reported;
    ev.known_findings = known_reported;
    ev.extra.insert("distinct_interleavings".into(), json!(interleavings.len()));
    ev.extra.insert("distinct_interleavings_rule".into(), json!("distinct hashes of the sequence (thread id, hook point it was released from), paired with the run's operation count"));
    ev.extra.insert("distinct_cache_construction_orders".into(), json!(states.len()));
    ev.extra.insert("simulated_time".into(), json!(format!("{steps} scheduler steps (no clock exists in the code under test)")));
    ev.extra.insert("batches".into(), json!(batch_info));
    ev.extra.insert("violation_classes".into(), json!(class_counts));
    ev.components = vec![
        json!({"component": "leptos_i18n formatter cache, format_* helpers, get_plural_rules, generated accessors (load_locales!), td_string!/td!/td_format_string!", "status": "real, /repo working tree, feature verif_hooks"}),
        json!({"component": "leptos_i18n_parser + leptos_i18n_macro (formatter text -> options mapping)", "status": "real (the fixture is compiled by the real proc-macro)"}),
        json!({"component": "ICU4X 1.5 with compiled data", "status": "real; also used statelessly as the reference model"}),
        json!({"component": "caller threads", "status": "real OS threads, parked at hook points and released one at a time by the simulator (schedule = sequence of thread ids, replayable)"}),
        json!({"component": "ICU data provider (faulty build)", "status": "simulator: wrapper around compiled data failing the planned constructions"}),
    ];
    ev.assumptions = vec![
        "the only synchronisation in the code under test is the cache RwLock; between hook points a released thread runs alone, so lock-granularity interleavings are all there are".into(),
        "values come from fixed pools (14 numbers, 7 dates, 5 times, 6 lists, 20 counts); value-dependent formatting bugs inside ICU4X are out of scope".into(),
        "under provider faults only the operation whose own construction was failed may panic; everything else must equal the reference".into(),
    ];
    ev.write(&opts.evidence);
    println!("sim_cache C18 done: {evaluations} runs, {} distinct non-trivial, {} interleavings, {} violation classes reported, {} known, {:.1}s", nontrivial.len(), interleavings.len(), reported, ev.known_findings.len(), wall);
    if reported > 0 {
        simkit::EXIT_VIOLATION
    } else {
        simkit::EXIT_OK
    }
}

/// Determinism self-test support: one line per run with a hash of the worker's full reply.
fn write_digests(label: &str, replies: &[Reply]) {
    let Ok(path) = std::env::var("VERIF_DIGEST_OUT") else { return };
    let mut out = String::new();
    for (i, r) in replies.iter().enumerate() {
        let d = match r {
            Reply::Ok(v) => format!("{:016x}", simkit::fnv(v.to_string().as_bytes())),
            Reply::Died(_) => "died".to_string(),
            Reply::Hung => "hung".to_string(),
            Reply::Skipped => "skipped".to_string(),
        };
        out.push_str(&format!("{i} {d}\n"));
    }
    let _ = std::fs::write(format!("{path}.{label}"), out);
}

fn replay(args: &[String]) -> i32 {
    let Some(path) = args.first() else { simkit::harness_error("usage: replay FILE") };
    let text = std::fs::read_to_string(path).unwrap_or_else(|e| simkit::harness_error(&format!("cannot read {path}: {e}")));
    let rp: Value = serde_json::from_str(&text).unwrap_or_else(|e| simkit::harness_error(&format!("bad replay file: {e}")));
    let binary = rp["binary"].as_str().unwrap_or(BUILD);
    let cfg = pool_for(binary, 1);
    let req = if rp.get("plan").is_some() { json!({"plan": rp["plan"]}) } else { rp["request"].clone() };
    let r = pool::run_one_fresh(&cfg, &req);
    if let Reply::Ok(v) = &r {
        println!("replayed plan: {}", v["plan"]);
        println!("results: {}", v["results"]);
    }
    let vs = violations_of(&r);
    if vs.is_empty() {
        println!("no violation on this tree");
        return simkit::EXIT_OK;
    }
    for (inv, sig, detail) in &vs {
        let same = Some(inv.as_str()) == rp["expected"]["invariant"].as_str() && Some(sig.as_str()) == rp["expected"]["signature"].as_str();
        println!("violation{}: {inv} :: {sig} :: {detail}", if same { " (same as recorded)" } else { " (different from recorded)" });
    }
    println!("VIOLATION property=C18 replay={path}");
    simkit::EXIT_VIOLATION
}

fn main() {
    let args: Vec<String> = std::env::args().collect();
    let code = match args.get(1).map(|s| s.as_str()) {
        Some("worker") => {
            worker();
            0
        }
        Some("check") => check(&args[2..]),
        Some("replay") => replay(&args[2..]),
        Some("one") => {
            setup_process();
            let req: Value = serde_json::from_str(&args[2]).expect("request json");
            println!("{}", serde_json::to_string_pretty(&handle(&req)).unwrap());
            0
        }
        _ => {
            eprintln!("usage: sim_cache worker | check C18 [--tier T --seed N --evidence F --replay-dir D] | replay FILE | one JSON");
            2
        }
    };
    std::process::exit(code);
}
