//! Fault-injecting ICU data provider (build without `icu_compiled_data`): delegates to a provider whose
//! `IcuDataProvider` impl is *derived* (serving ICU4X's compiled data), and fails the constructions the plan names ("the n-th construction in this run").
use icu_datetime::{options::length, DateFormatter, DateTimeFormatter, TimeFormatter};
use icu_decimal::FixedDecimalFormatter;
use icu_experimental::dimension::currency::formatter::CurrencyFormatter;
use icu_experimental::dimension::currency::options::CurrencyFormatterOptions;
use icu_list::{ListFormatter, ListLength};
use icu_plurals::{PluralRuleType, PluralRules};
use icu_provider::{DataError, DataErrorKind, DataLocale};
use leptos_i18n::custom_provider::IcuDataProvider;
use std::collections::BTreeSet;
use std::sync::Mutex;

pub struct FaultState {
    pub counter: u64,
    pub fail_at: BTreeSet<u64>,
    /// (construction index, description) of every injected failure
    pub fired: Vec<(u64, String)>,
    /// every construction request, in order (a measure of reached cache states)
    pub constructions: Vec<String>,
}

pub static FAULTS: Mutex<FaultState> = Mutex::new(FaultState { counter: 0, fail_at: BTreeSet::new(), fired: vec![], constructions: vec![] });

thread_local! {
    /// set when the current thread's current operation had its construction failed
    pub static OP_FAILED: std::cell::Cell<bool> = const { std::cell::Cell::new(false) };
}

fn gate(what: String) -> Result<(), DataError> {
    let mut st = FAULTS.lock().unwrap_or_else(|e| e.into_inner());
    let n = st.counter;
    st.counter += 1;
    st.constructions.push(what.clone());
    if st.fail_at.contains(&n) {
        st.fired.push((n, what));
        OP_FAILED.with(|f| f.set(true));
        return Err(DataErrorKind::MissingLocale.with_str_context("injected by sim_cache"));
    }
    Ok(())
}

pub struct FaultyProvider;

impl IcuDataProvider for FaultyProvider {
    fn try_new_num_formatter(
        &self,
        locale: &DataLocale,
        options: icu_decimal::options::FixedDecimalFormatterOptions,
    ) -> Result<FixedDecimalFormatter, icu_decimal::DecimalError> {
        gate(format!("number {locale} {:?}", options.grouping_strategy))?;
        Derived.try_new_num_formatter(locale, options)
    }

    fn try_new_date_formatter(&self, locale: &DataLocale, length: length::Date) -> Result<DateFormatter, icu_datetime::DateTimeError> {
        gate(format!("date {locale} {length:?}"))?;
        Derived.try_new_date_formatter(locale, length)
    }

    fn try_new_time_formatter(&self, locale: &DataLocale, length: length::Time) -> Result<TimeFormatter, icu_datetime::DateTimeError> {
        gate(format!("time {locale} {length:?}"))?;
        Derived.try_new_time_formatter(locale, length)
    }

    fn try_new_datetime_formatter(
        &self,
        locale: &DataLocale,
        options: icu_datetime::options::DateTimeFormatterOptions,
    ) -> Result<DateTimeFormatter, icu_datetime::DateTimeError> {
        gate(format!("datetime {locale} {options:?}"))?;
        Derived.try_new_datetime_formatter(locale, options)
    }

    fn try_new_and_list_formatter(&self, locale: &DataLocale, style: ListLength) -> Result<ListFormatter, icu_list::ListError> {
        gate(format!("list-and {locale} {style:?}"))?;
        Derived.try_new_and_list_formatter(locale, style)
    }

    fn try_new_or_list_formatter(&self, locale: &DataLocale, style: ListLength) -> Result<ListFormatter, icu_list::ListError> {
        gate(format!("list-or {locale} {style:?}"))?;
        Derived.try_new_or_list_formatter(locale, style)
    }

    fn try_new_unit_list_formatter(&self, locale: &DataLocale, style: ListLength) -> Result<ListFormatter, icu_list::ListError> {
        gate(format!("list-unit {locale} {style:?}"))?;
        Derived.try_new_unit_list_formatter(locale, style)
    }

    fn try_new_plural_rules(&self, locale: &DataLocale, rule_type: PluralRuleType) -> Result<PluralRules, icu_plurals::PluralsError> {
        gate(format!("plural {locale} {rule_type:?}"))?;
        Derived.try_new_plural_rules(locale, rule_type)
    }

    fn try_new_currency_formatter(&self, locale: &DataLocale, options: CurrencyFormatterOptions) -> Result<CurrencyFormatter, DataError> {
        gate(format!("currency {locale} {:?}", options.width))?;
        Derived.try_new_currency_formatter(locale, options)
    }
}

/// What an application installs at boot before its real data is available: every formatter is built for the root
/// locale, whatever locale is asked for. The simulator installs it first and then replaces it with `FaultyProvider`:
/// `set_icu_data_provider` replaces the provider, so nothing formatted afterwards may come from this one.
pub struct BootProvider;

impl IcuDataProvider for BootProvider {
    fn try_new_num_formatter(&self, _: &DataLocale, options: icu_decimal::options::FixedDecimalFormatterOptions) -> Result<FixedDecimalFormatter, icu_decimal::DecimalError> {
        FixedDecimalFormatter::try_new(&DataLocale::default(), options)
    }
    fn try_new_date_formatter(&self, _: &DataLocale, length: length::Date) -> Result<DateFormatter, icu_datetime::DateTimeError> {
        DateFormatter::try_new_with_length(&DataLocale::default(), length)
    }
    fn try_new_time_formatter(&self, _: &DataLocale, length: length::Time) -> Result<TimeFormatter, icu_datetime::DateTimeError> {
        TimeFormatter::try_new_with_length(&DataLocale::default(), length)
    }
    fn try_new_datetime_formatter(&self, _: &DataLocale, options: icu_datetime::options::DateTimeFormatterOptions) -> Result<DateTimeFormatter, icu_datetime::DateTimeError> {
        DateTimeFormatter::try_new(&DataLocale::default(), options)
    }
    fn try_new_and_list_formatter(&self, _: &DataLocale, style: ListLength) -> Result<ListFormatter, icu_list::ListError> {
        ListFormatter::try_new_and_with_length(&DataLocale::default(), style)
    }
    fn try_new_or_list_formatter(&self, _: &DataLocale, style: ListLength) -> Result<ListFormatter, icu_list::ListError> {
        ListFormatter::try_new_or_with_length(&DataLocale::default(), style)
    }
    fn try_new_unit_list_formatter(&self, _: &DataLocale, style: ListLength) -> Result<ListFormatter, icu_list::ListError> {
        ListFormatter::try_new_unit_with_length(&DataLocale::default(), style)
    }
    fn try_new_plural_rules(&self, _: &DataLocale, rule_type: PluralRuleType) -> Result<PluralRules, icu_plurals::PluralsError> {
        PluralRules::try_new(&DataLocale::default(), rule_type)
    }
    fn try_new_currency_formatter(&self, _: &DataLocale, options: CurrencyFormatterOptions) -> Result<CurrencyFormatter, DataError> {
        CurrencyFormatter::try_new(&DataLocale::default(), options)
    }
}

/// A provider written the way the book describes: the trait is **derived**, the type only serves data (here the data
/// compiled into the ICU4X component crates). `FaultyProvider` builds every formatter through it, so the code the
/// derive generates is what runs.
#[derive(leptos_i18n::custom_provider::IcuDataProvider)]
pub struct Derived;

macro_rules! delegate {
    ($baked:path; $($m:path),* $(,)?) => {
        $(
            impl icu_provider::DataProvider<$m> for Derived {
                fn load(&self, req: icu_provider::DataRequest) -> Result<icu_provider::DataResponse<$m>, DataError> {
                    icu_provider::DataProvider::<$m>::load(&$baked, req)
                }
            }
        )*
    };
}

delegate!(icu_decimal::provider::Baked; icu_decimal::provider::DecimalSymbolsV1Marker);
delegate!(icu_plurals::provider::Baked; icu_plurals::provider::CardinalV1Marker, icu_plurals::provider::OrdinalV1Marker);
delegate!(icu_list::provider::Baked; icu_list::provider::AndListV1Marker, icu_list::provider::OrListV1Marker, icu_list::provider::UnitListV1Marker);
delegate!(icu_datetime::provider::Baked; icu_datetime::provider::calendar::TimeLengthsV1Marker, icu_datetime::provider::calendar::TimeSymbolsV1Marker, icu_datetime::provider::calendar::BuddhistDateLengthsV1Marker, icu_datetime::provider::calendar::BuddhistDateSymbolsV1Marker, icu_datetime::provider::calendar::ChineseDateLengthsV1Marker, icu_datetime::provider::calendar::ChineseDateSymbolsV1Marker, icu_datetime::provider::calendar::CopticDateLengthsV1Marker, icu_datetime::provider::calendar::CopticDateSymbolsV1Marker, icu_datetime::provider::calendar::DangiDateLengthsV1Marker, icu_datetime::provider::calendar::DangiDateSymbolsV1Marker, icu_datetime::provider::calendar::EthiopianDateLengthsV1Marker, icu_datetime::provider::calendar::EthiopianDateSymbolsV1Marker, icu_datetime::provider::calendar::GregorianDateLengthsV1Marker, icu_datetime::provider::calendar::GregorianDateSymbolsV1Marker, icu_datetime::provider::calendar::HebrewDateLengthsV1Marker, icu_datetime::provider::calendar::HebrewDateSymbolsV1Marker, icu_datetime::provider::calendar::IndianDateLengthsV1Marker, icu_datetime::provider::calendar::IndianDateSymbolsV1Marker, icu_datetime::provider::calendar::IslamicDateLengthsV1Marker, icu_datetime::provider::calendar::IslamicDateSymbolsV1Marker, icu_datetime::provider::calendar::JapaneseDateLengthsV1Marker, icu_datetime::provider::calendar::JapaneseDateSymbolsV1Marker, icu_datetime::provider::calendar::JapaneseExtendedDateLengthsV1Marker, icu_datetime::provider::calendar::JapaneseExtendedDateSymbolsV1Marker, icu_datetime::provider::calendar::PersianDateLengthsV1Marker, icu_datetime::provider::calendar::PersianDateSymbolsV1Marker, icu_datetime::provider::calendar::RocDateLengthsV1Marker, icu_datetime::provider::calendar::RocDateSymbolsV1Marker);
delegate!(icu_calendar::provider::Baked; icu_calendar::provider::ChineseCacheV1Marker, icu_calendar::provider::DangiCacheV1Marker, icu_calendar::provider::IslamicObservationalCacheV1Marker, icu_calendar::provider::IslamicUmmAlQuraCacheV1Marker, icu_calendar::provider::JapaneseErasV1Marker, icu_calendar::provider::JapaneseExtendedErasV1Marker, icu_calendar::provider::WeekDataV1Marker);
delegate!(icu_experimental::provider::Baked; icu_experimental::dimension::provider::currency::CurrencyEssentialsV1Marker);
