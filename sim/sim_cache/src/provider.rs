//! Fault-injecting ICU data provider (build without `icu_compiled_data`): delegates to ICU4X's
//! compiled data, and fails the constructions the plan names ("the n-th construction in this run").
use icu_datetime::{options::length, DateFormatter, DateTimeFormatter, TimeFormatter};
use icu_decimal::FixedDecimalFormatter;
use icu_experimental::dimension::currency::formatter::CurrencyFormatter;
use icu_experimental::dimension::currency::options::CurrencyFormatterOptions;
use icu_list::{ListFormatter, ListLength};
use icu_plurals::{PluralRuleType, PluralRules};
use icu_provider::{DataError, DataErrorKind, DataLocale};
use leptos_i18n::custom_provider::IcuDataProvider;
use std::collections::BTreeSet;
use std::sync::Mutex;

pub struct FaultState {
    pub counter: u64,
    pub fail_at: BTreeSet<u64>,
    /// (construction index, description) of every injected failure
    pub fired: Vec<(u64, String)>,
    /// every construction request, in order (a measure of reached cache states)
    pub constructions: Vec<String>,
}

pub static FAULTS: Mutex<FaultState> = Mutex::new(FaultState { counter: 0, fail_at: BTreeSet::new(), fired: vec![], constructions: vec![] });

thread_local! {
    /// set when the current thread's current operation had its construction failed
    pub static OP_FAILED: std::cell::Cell<bool> = const { std::cell::Cell::new(false) };
}

fn gate(what: String) -> Result<(), DataError> {
    let mut st = FAULTS.lock().unwrap_or_else(|e| e.into_inner());
    let n = st.counter;
    st.counter += 1;
    st.constructions.push(what.clone());
    if st.fail_at.contains(&n) {
        st.fired.push((n, what));
        OP_FAILED.with(|f| f.set(true));
        return Err(DataErrorKind::MissingLocale.with_str_context("injected by sim_cache"));
    }
    Ok(())
}

pub struct FaultyProvider;

impl IcuDataProvider for FaultyProvider {
    fn try_new_num_formatter(
        &self,
        locale: &DataLocale,
        options: icu_decimal::options::FixedDecimalFormatterOptions,
    ) -> Result<FixedDecimalFormatter, icu_decimal::DecimalError> {
        gate(format!("number {locale} {:?}", options.grouping_strategy))?;
        FixedDecimalFormatter::try_new(locale, options)
    }

    fn try_new_date_formatter(&self, locale: &DataLocale, length: length::Date) -> Result<DateFormatter, icu_datetime::DateTimeError> {
        gate(format!("date {locale} {length:?}"))?;
        DateFormatter::try_new_with_length(locale, length)
    }

    fn try_new_time_formatter(&self, locale: &DataLocale, length: length::Time) -> Result<TimeFormatter, icu_datetime::DateTimeError> {
        gate(format!("time {locale} {length:?}"))?;
        TimeFormatter::try_new_with_length(locale, length)
    }

    fn try_new_datetime_formatter(
        &self,
        locale: &DataLocale,
        options: icu_datetime::options::DateTimeFormatterOptions,
    ) -> Result<DateTimeFormatter, icu_datetime::DateTimeError> {
        gate(format!("datetime {locale} {options:?}"))?;
        DateTimeFormatter::try_new(locale, options)
    }

    fn try_new_and_list_formatter(&self, locale: &DataLocale, style: ListLength) -> Result<ListFormatter, icu_list::ListError> {
        gate(format!("list-and {locale} {style:?}"))?;
        ListFormatter::try_new_and_with_length(locale, style)
    }

    fn try_new_or_list_formatter(&self, locale: &DataLocale, style: ListLength) -> Result<ListFormatter, icu_list::ListError> {
        gate(format!("list-or {locale} {style:?}"))?;
        ListFormatter::try_new_or_with_length(locale, style)
    }

    fn try_new_unit_list_formatter(&self, locale: &DataLocale, style: ListLength) -> Result<ListFormatter, icu_list::ListError> {
        gate(format!("list-unit {locale} {style:?}"))?;
        ListFormatter::try_new_unit_with_length(locale, style)
    }

    fn try_new_plural_rules(&self, locale: &DataLocale, rule_type: PluralRuleType) -> Result<PluralRules, icu_plurals::PluralsError> {
        gate(format!("plural {locale} {rule_type:?}"))?;
        PluralRules::try_new(locale, rule_type)
    }

    fn try_new_currency_formatter(&self, locale: &DataLocale, options: CurrencyFormatterOptions) -> Result<CurrencyFormatter, DataError> {
        gate(format!("currency {locale} {:?}", options.width))?;
        CurrencyFormatter::try_new(locale, options)
    }
}

/// What an application installs at boot before its real data is available: every formatter is built for the root
/// locale, whatever locale is asked for. The simulator installs it first and then replaces it with `FaultyProvider`:
/// `set_icu_data_provider` replaces the provider, so nothing formatted afterwards may come from this one.
pub struct BootProvider;

impl IcuDataProvider for BootProvider {
    fn try_new_num_formatter(&self, _: &DataLocale, options: icu_decimal::options::FixedDecimalFormatterOptions) -> Result<FixedDecimalFormatter, icu_decimal::DecimalError> {
        FixedDecimalFormatter::try_new(&DataLocale::default(), options)
    }
    fn try_new_date_formatter(&self, _: &DataLocale, length: length::Date) -> Result<DateFormatter, icu_datetime::DateTimeError> {
        DateFormatter::try_new_with_length(&DataLocale::default(), length)
    }
    fn try_new_time_formatter(&self, _: &DataLocale, length: length::Time) -> Result<TimeFormatter, icu_datetime::DateTimeError> {
        TimeFormatter::try_new_with_length(&DataLocale::default(), length)
    }
    fn try_new_datetime_formatter(&self, _: &DataLocale, options: icu_datetime::options::DateTimeFormatterOptions) -> Result<DateTimeFormatter, icu_datetime::DateTimeError> {
        DateTimeFormatter::try_new(&DataLocale::default(), options)
    }
    fn try_new_and_list_formatter(&self, _: &DataLocale, style: ListLength) -> Result<ListFormatter, icu_list::ListError> {
        ListFormatter::try_new_and_with_length(&DataLocale::default(), style)
    }
    fn try_new_or_list_formatter(&self, _: &DataLocale, style: ListLength) -> Result<ListFormatter, icu_list::ListError> {
        ListFormatter::try_new_or_with_length(&DataLocale::default(), style)
    }
    fn try_new_unit_list_formatter(&self, _: &DataLocale, style: ListLength) -> Result<ListFormatter, icu_list::ListError> {
        ListFormatter::try_new_unit_with_length(&DataLocale::default(), style)
    }
    fn try_new_plural_rules(&self, _: &DataLocale, rule_type: PluralRuleType) -> Result<PluralRules, icu_plurals::PluralsError> {
        PluralRules::try_new(&DataLocale::default(), rule_type)
    }
    fn try_new_currency_formatter(&self, _: &DataLocale, options: CurrencyFormatterOptions) -> Result<CurrencyFormatter, DataError> {
        CurrencyFormatter::try_new(&DataLocale::default(), options)
    }
}
