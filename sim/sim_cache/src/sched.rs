//! Controlled scheduler: real OS threads, parked at the guarded hook points around the formatter
//! cache lock and released one at a time by the simulator. At most one simulated thread runs at any
//! moment, so an execution is fully described by the sequence of chosen thread ids.
use leptos_i18n::verif_hooks::Point;
use simkit::Rng;
use std::cell::Cell;
use std::sync::{Condvar, Mutex, OnceLock};

#[derive(Debug, Clone, Copy, PartialEq, Eq)]
pub enum At {
    Start,
    BeforeLock,
    Acquired,
    Released,
}

#[derive(Debug, Clone, Copy, PartialEq, Eq)]
enum Status {
    Running,
    Parked(At),
    Finished,
}

struct State {
    status: Vec<Status>,
    go: Option<usize>,
    holder: Option<usize>,
    active: bool,
}

pub struct Sched {
    st: Mutex<State>,
    cv: Condvar,
}

thread_local! {
    static TID: Cell<Option<usize>> = const { Cell::new(None) };
}

static SCHED: OnceLock<Sched> = OnceLock::new();

pub fn sched() -> &'static Sched {
    SCHED.get_or_init(|| Sched { st: Mutex::new(State { status: vec![], go: None, holder: None, active: false }), cv: Condvar::new() })
}

/// Installed once per process: forwards the library's hook points to the scheduler.
pub fn install_hook() {
    leptos_i18n::verif_hooks::set_hook(|p| {
        let at = match p {
            Point::BeforeLock => At::BeforeLock,
            Point::Acquired => At::Acquired,
            Point::Released => At::Released,
        };
        if let Some(tid) = TID.with(|t| t.get()) {
            sched().park(tid, at);
        }
    });
}

#[derive(Debug, Clone)]
pub enum Policy {
    /// uniform among enabled threads
    Random,
    /// random priorities with `d` priority change points (PCT style)
    Pct { prio: Vec<i64>, change_at: Vec<usize> },
    RoundRobin,
    /// lowest enabled thread id (sequential execution thread by thread)
    Lowest,
    /// replay: recorded choices, falling back to the lowest enabled id when a choice is not enabled
    Recorded(Vec<usize>),
}

impl Sched {
    pub fn begin(&self, n: usize) {
        let mut st = self.st.lock().unwrap_or_else(|e| e.into_inner());
        st.status = vec![Status::Running; n];
        st.go = None;
        st.holder = None;
        st.active = true;
    }

    pub fn end(&self) {
        let mut st = self.st.lock().unwrap_or_else(|e| e.into_inner());
        st.active = false;
    }

    pub fn enter_thread(&self, tid: usize) {
        TID.with(|t| t.set(Some(tid)));
        self.park(tid, At::Start);
    }

    pub fn finish_thread(&self, tid: usize) {
        TID.with(|t| t.set(None));
        let mut st = self.st.lock().unwrap_or_else(|e| e.into_inner());
        st.status[tid] = Status::Finished;
        if st.holder == Some(tid) {
            st.holder = None;
        }
        self.cv.notify_all();
    }

    fn park(&self, tid: usize, at: At) {
        let mut st = self.st.lock().unwrap_or_else(|e| e.into_inner());
        if !st.active {
            return;
        }
        st.status[tid] = Status::Parked(at);
        match at {
            At::Acquired => st.holder = Some(tid),
            At::Released => {
                if st.holder == Some(tid) {
                    st.holder = None;
                }
            }
            _ => {}
        }
        self.cv.notify_all();
        while st.go != Some(tid) {
            st = self.cv.wait(st).unwrap_or_else(|e| e.into_inner());
        }
        st.go = None;
    }

    /// Drive all threads to completion. Returns the schedule: (chosen tid, point it was released from, enabled-set size).
    pub fn drive(&self, policy: &mut Policy, rng: &mut Rng, max_steps: usize) -> Result<Vec<(usize, At, usize)>, String> {
        let mut trace = vec![];
        let mut step = 0usize;
        let mut rr = 0usize;
        loop {
            let mut st = self.st.lock().unwrap_or_else(|e| e.into_inner());
            while st.status.iter().any(|s| *s == Status::Running) {
                st = self.cv.wait(st).unwrap_or_else(|e| e.into_inner());
            }
            if st.status.iter().all(|s| *s == Status::Finished) {
                return Ok(trace);
            }
            let holder = st.holder;
            let enabled: Vec<(usize, At)> = st
                .status
                .iter()
                .enumerate()
                .filter_map(|(i, s)| match s {
                    Status::Parked(at) => {
                        let blocked = *at == At::BeforeLock && holder.is_some() && holder != Some(i);
                        if blocked {
                            None
                        } else {
                            Some((i, *at))
                        }
                    }
                    _ => None,
                })
                .collect();
            if enabled.is_empty() {
                return Err(format!("no enabled thread (holder {holder:?}): lock-order deadlock in the model"));
            }
            if step >= max_steps {
                return Err("step cap reached".into());
            }
            let pick = match policy {
                Policy::Random => enabled[rng.below(enabled.len())],
                Policy::Lowest => enabled[0],
                Policy::RoundRobin => {
                    let n = st.status.len();
                    let mut c = enabled[0];
                    for k in 0..n {
                        let want = (rr + k) % n;
                        if let Some(e) = enabled.iter().find(|e| e.0 == want) {
                            c = *e;
                            break;
                        }
                    }
                    rr = c.0 + 1;
                    c
                }
                Policy::Pct { prio, change_at } => {
                    if change_at.contains(&step) {
                        // demote the currently highest-priority enabled thread
                        if let Some(best) = enabled.iter().max_by_key(|e| prio[e.0]).copied() {
                            let min = prio.iter().copied().min().unwrap_or(0);
                            prio[best.0] = min - 1;
                        }
                    }
                    *enabled.iter().max_by_key(|e| prio[e.0]).unwrap()
                }
                Policy::Recorded(choices) => match choices.get(step) {
                    Some(t) => enabled.iter().find(|e| e.0 == *t).copied().unwrap_or(enabled[0]),
                    None => enabled[0],
                },
            };
            trace.push((pick.0, pick.1, enabled.len()));
            st.status[pick.0] = Status::Running;
            st.go = Some(pick.0);
            step += 1;
            self.cv.notify_all();
        }
    }
}
