// The fixture is read by `load_locales!` at compile time; cargo does not see those reads, so tell it.
fn main() {
    println!("cargo:rerun-if-changed=locales");
    println!("cargo:rerun-if-changed=Cargo.toml");
    println!("cargo:rerun-if-changed=build.rs");
}
