#!/usr/bin/env python3
"""Generates the sim_cache fixture (committed output): locales/*.json and src/fixture_table.rs.

Every key is `"<locale>|{{ v, <formatter text> }}"`; the table records, independently of the parser,
which formatter and options the *documentation* says that text selects (defaults for omitted or
unrecognised arguments, whitespace-insensitive). The simulator compares outputs against direct,
stateless ICU4X calls made with those expected options.
"""
import json, os
HERE = os.path.dirname(os.path.abspath(__file__))
# es-MX inherits es-419, which inherits es (see Cargo.toml): a two-link chain that does not end at the default locale
LOCALES = ["en", "fr", "de", "ja", "ar", "ru", "pt", "pt-PT", "th", "es", "es-419", "es-MX"]
ES_CHAIN = ["es", "es-419", "es-MX"]

keys = []  # (name, formatter_text, kind, expected tuple)

def add(kind, text, expected):
    name = f"k_{kind}_{sum(1 for k in keys if k[2] == kind)}"
    keys.append((name, text, kind, expected))

# ---- number: grouping_strategy in auto(default) never always min2
add("num", "number", ("Auto",))
add("num", "number()", ("Auto",))
for v, e in [("auto", "Auto"), ("never", "Never"), ("always", "Always"), ("min2", "Min2")]:
    add("num", f"number(grouping_strategy: {v})", (e,))
add("num", "number(grouping_strategy: bogus)", ("Auto",))
add("num", "number(unknown_arg: always)", ("Auto",))
add("num", "number(grouping_strategy: bogus; grouping_strategy: never)", ("Never",))
add("num", "  number ( grouping_strategy :   always ) ", ("Always",))
add("num", "number(grouping_strategy:min2)", ("Min2",))
add("num", "number(\tgrouping_strategy:\tnever\t)", ("Never",))
add("num", "number(other: x; grouping_strategy: always; more: y)", ("Always",))
# ---- currency: width short(default) narrow; currency_code USD(default)
for w, we in [(None, "Short"), ("short", "Short"), ("narrow", "Narrow"), ("bogus", "Short")]:
    for c, ce in [(None, "USD"), ("EUR", "EUR"), ("JPY", "JPY")]:
        args = []
        if w: args.append(f"width: {w}")
        if c: args.append(f"currency_code: {c}")
        text = "currency" if not args else f"currency({'; '.join(args)})"
        add("cur", text, (we, ce))
add("cur", "currency(currency_code: EURO)", ("Short", "USD"))  # not a 3 letter code -> default
add("cur", " currency (currency_code:EUR;width:narrow) ", ("Narrow", "EUR"))
# ---- date: date_length full long medium(default) short
add("date", "date", ("Medium",))
for v in ["full", "long", "medium", "short"]:
    add("date", f"date(date_length: {v})", (v.capitalize(),))
add("date", "date(date_length: bogus)", ("Medium",))
add("date", "date(time_length: full)", ("Medium",))
add("date", " date( date_length : long ) ", ("Long",))
# ---- time: time_length full long medium short(default)
add("time", "time", ("Short",))
for v in ["full", "long", "medium", "short"]:
    add("time", f"time(time_length: {v})", (v.capitalize(),))
add("time", "time(time_length: bogus)", ("Short",))
add("time", "time(time_length:medium)", ("Medium",))
# ---- datetime: date_length x time_length
for d, de in [(None, "Medium"), ("full", "Full"), ("long", "Long"), ("medium", "Medium"), ("short", "Short")]:
    for t, te in [(None, "Short"), ("full", "Full"), ("long", "Long"), ("medium", "Medium"), ("short", "Short")]:
        args = []
        if d: args.append(f"date_length: {d}")
        if t: args.append(f"time_length: {t}")
        text = "datetime" if not args else f"datetime({'; '.join(args)})"
        add("dt", text, (de, te))
add("dt", "datetime(time_length: medium; date_length: long)", ("Long", "Medium"))
# ---- list: list_type and or unit(default); list_style wide(default) short narrow
for ty, tye in [(None, "Unit"), ("and", "And"), ("or", "Or"), ("unit", "Unit")]:
    for st, ste in [(None, "Wide"), ("wide", "Wide"), ("short", "Short"), ("narrow", "Narrow")]:
        args = []
        if ty: args.append(f"list_type: {ty}")
        if st: args.append(f"list_style: {st}")
        text = "list" if not args else f"list({'; '.join(args)})"
        add("list", text, (tye, ste))
add("list", "list(list_type: bogus; list_style: bogus)", ("Unit", "Wide"))
add("list", "list( list_style :narrow ;list_type: or )", ("Or", "Narrow"))

# ---- whitespace that is not ASCII (French typography puts a no-break space before `:` and `;`)
add("num", "number(grouping_strategy\u00a0: never)", ("Never",))
add("num", "number(grouping_strategy:\u202falways\u00a0)", ("Always",))
add("date", "date(\u3000date_length\u2003:\u00a0full\u3000)", ("Full",))
add("list", "list(list_type\u00a0: or\u00a0; list_style\u00a0: short)", ("Or", "Short"))
add("cur", "currency(width\u00a0: narrow\u00a0;\u00a0currency_code\u00a0: EUR)", ("Narrow", "EUR"))

# ---- pieces without a colon (a stray `;`, a bare word) are skipped like any unknown argument; what follows still counts
add("num", "number(; grouping_strategy: never)", ("Never",))
add("num", "number(compact; grouping_strategy: always)", ("Always",))
add("list", "list(;; list_type: or; list_style: narrow)", ("Or", "Narrow"))
add("dt", "datetime(date_length: long; ; time_length: medium)", ("Long", "Medium"))
add("cur", "currency(accounting; width: narrow; currency_code: EUR)", ("Narrow", "EUR"))
add("date", "date(date_length: full;)", ("Full",))

# ---- keys declared only in the default locale: every other locale defaults to it, and the value must still be
# formatted for the locale being rendered
N_DECLARED_EVERYWHERE = len(keys)
add("num", "number(grouping_strategy: always)", ("Always",))
add("cur", "currency(width: narrow; currency_code: EUR)", ("Narrow", "EUR"))
add("date", "date(date_length: long)", ("Long",))
add("time", "time(time_length: medium)", ("Medium",))
add("dt", "datetime(date_length: short; time_length: short)", ("Short", "Short"))
add("list", "list(list_type: and; list_style: wide)", ("And", "Wide"))

# ---- keys declared in `en` and, with OTHER options, in `es`; missing in es-419 and es-MX, which must show what `es`
# declares (its text and its options), formatted for themselves; every other locale defaults to `en`
N_BEFORE_INHERITED = len(keys)
INHERITED_ES = {}
def add_inh(kind, text_en, exp_en, text_es, exp_es):
    add(kind, text_en, exp_en)
    INHERITED_ES[len(keys) - 1] = (text_es, exp_es)
add_inh("num", "number(grouping_strategy: always)", ("Always",), "number(grouping_strategy: never)", ("Never",))
add_inh("date", "date(date_length: short)", ("Short",), "date(date_length: long)", ("Long",))
add_inh("list", "list(list_type: and)", ("And", "Wide"), "list(list_type: or)", ("Or", "Wide"))
add_inh("cur", "currency(width: short; currency_code: USD)", ("Short", "USD"), "currency(width: narrow; currency_code: EUR)", ("Narrow", "EUR"))

# ---- the same argument written twice with two *recognised* values: which one counts is not documented, but a translation
# file and the `t*_format!` macros read the same grammar, so both must make the same choice (and it must be one of the two)
N_BEFORE_DUP = len(keys)
DUPS = []  # (kind, text, expected if the first occurrence counts, expected if the last one counts)
def add_dup(kind, text, first, last):
    add(kind, text, first)
    DUPS.append((kind, text, first, last, len(keys) - 1))
add_dup("date", "date(date_length: short; date_length: full)", ("Short",), ("Full",))
add_dup("dt", "datetime(date_length: medium; time_length: short; date_length: long; time_length: medium)", ("Medium", "Short"), ("Long", "Medium"))
add_dup("list", "list(list_type: or; list_type: and)", ("Or", "Wide"), ("And", "Wide"))
add_dup("list", "list(list_style: short; list_type: and; list_style: narrow)", ("And", "Short"), ("And", "Narrow"))
add_dup("num", "number(grouping_strategy: never; grouping_strategy: always)", ("Never",), ("Always",))
add_dup("cur", "currency(currency_code: USD; width: short; currency_code: EUR)", ("Short", "USD"), ("Short", "EUR"))
add_dup("time", "time(time_length: short; time_length: medium)", ("Short",), ("Medium",))

FORMS = ["zero", "one", "two", "few", "many", "other"]

# (rust literal, its decimal expansion written by hand)
TYPED = [
    ("200u8", "200"), ("-100i8", "-100"), ("65535u16", "65535"), ("-32768i16", "-32768"), ("4294967295u32", "4294967295"),
    ("-2147483648i32", "-2147483648"), ("18446744073709551615u64", "18446744073709551615"), ("-9223372036854775808i64", "-9223372036854775808"),
    ("340282366920938463463374607431768211455u128", "340282366920938463463374607431768211455"),
    ("-170141183460469231731687303715884105728i128", "-170141183460469231731687303715884105728"),
    ("123456usize", "123456"), ("-123456isize", "-123456"),
    ("0.5f32", "0.5"), ("-2.25f32", "-2.25"), ("1234.5f32", "1234.5"), ("16777216.0f32", "16777216"), ("3.0e9f32", "3000000000"),
]

def locale_file(loc):
    d = {}
    for i, (name, text, kind, exp) in enumerate(keys):
        if i in INHERITED_ES and loc == "es":
            d[name] = f"es|{{{{ v, {INHERITED_ES[i][0]} }}}}"
            continue
        if i >= N_DECLARED_EVERYWHERE and loc != "en":
            continue  # defaulted to en (or, for the es chain, inherited)
        d[name] = f"{loc}|{{{{ v, {text} }}}}"
    for f in FORMS:
        d[f"pl_card_{f}"] = f"{loc}|{f}|{{{{ count }}}}"
        d[f"pl_ord_ordinal_{f}"] = f"{loc}|ord-{f}|{{{{ count }}}}"
    return d

for loc in LOCALES:
    with open(os.path.join(HERE, "locales", f"{loc}.json"), "w", encoding="utf-8") as fh:
        json.dump(locale_file(loc), fh, indent=1, ensure_ascii=False)
        fh.write("\n")

KIND_RS = {"num": "Number", "cur": "Currency", "date": "Date", "time": "Time", "dt": "DateTime", "list": "List"}
VAL_ARG = {"num": "v.num()", "cur": "v.num()", "date": "v.date()", "time": "v.time()", "dt": "v.datetime()", "list": "v.list()"}

def spec(kind, exp):
    if kind == "num": return f"Spec::Number(Gs::{exp[0]})"
    if kind == "cur": return f"Spec::Currency(Cw::{exp[0]}, \"{exp[1]}\")"
    if kind == "date": return f"Spec::Date(Len::{exp[0]})"
    if kind == "time": return f"Spec::Time(Len::{exp[0]})"
    if kind == "dt": return f"Spec::DateTime(Len::{exp[0]}, Len::{exp[1]})"
    if kind == "list": return f"Spec::List(Lt::{exp[0]}, Ls::{exp[1]})"

out = []
out.append("// @generated by gen_fixture.py -- do not edit")
out.append("use crate::fixture::{Cw, Gs, Len, Ls, Lt, Spec, Val};")
out.append("use crate::i18n::*;")
out.append("use leptos_i18n::formatting::*;")
out.append("")
out.append("pub struct KeySpec { pub name: &'static str, pub text: &'static str, pub spec: Spec, pub only_in_default: bool, pub es_spec: Option<Spec>, pub dup: bool }")
out.append("")
out.append("pub const KEYS: &[KeySpec] = &[")
for i, (name, text, kind, exp) in enumerate(keys):
    out.append(f"    KeySpec {{ name: {json.dumps(name)}, text: {json.dumps(text, ensure_ascii=False)}, spec: {spec(kind, exp)}, only_in_default: {'true' if i >= N_DECLARED_EVERYWHERE else 'false'}, es_spec: {('Some(' + spec(kind, INHERITED_ES[i][1]) + ')') if i in INHERITED_ES else 'None'}, dup: {'true' if i >= N_BEFORE_DUP else 'false'} }},")
out.append("];")
out.append("")
out.append("/// route 1: `td_string!` on a fixture key (parser -> macro -> format_*_to_formatter)")
out.append("pub fn call_key_string(key: usize, locale: Locale, v: &Val) -> String {")
out.append("    match key {")
for i, (name, text, kind, exp) in enumerate(keys):
    out.append(f"        {i} => td_string!(locale, {name}, v = {VAL_ARG[kind]}).to_string(),")
out.append("        _ => unreachable!(),")
out.append("    }")
out.append("}")
out.append("")
out.append("/// route 3: `td!` on a fixture key, rendered to HTML (parser -> macro -> format_*_to_view)")
out.append("pub fn call_key_view(key: usize, locale: Locale, v: &Val) -> String {")
out.append("    match key {")
for i, (name, text, kind, exp) in enumerate(keys):
    acc = VAL_ARG[kind].replace("v.", "x.")
    out.append(f"        {i} => {{ let x = v.clone(); crate::fixture::render(td!(locale, {name}, v = move || {acc})) }}")
out.append("        _ => unreachable!(),")
out.append("    }")
out.append("}")
out.append("")
# route 2: td_format_string! call sites (macro argument syntax: idents only, no whitespace variants)
sites = []
def site(kind, fmt, exp):
    sites.append((kind, fmt, exp))
site("num", "number", ("Auto",)); site("num", "number(grouping_strategy: never)", ("Never",)); site("num", "number(grouping_strategy: always)", ("Always",)); site("num", "number(grouping_strategy: min2)", ("Min2",)); site("num", "number(grouping_strategy: bogus)", ("Auto",))
site("cur", "currency", ("Short", "USD")); site("cur", "currency(width: narrow; currency_code: EUR)", ("Narrow", "EUR")); site("cur", "currency(currency_code: JPY)", ("Short", "JPY"))
site("date", "date", ("Medium",)); site("date", "date(date_length: full)", ("Full",)); site("date", "date(date_length: short)", ("Short",)); site("date", "date(date_length: long)", ("Long",))
site("time", "time", ("Short",)); site("time", "time(time_length: medium)", ("Medium",))
site("dt", "datetime", ("Medium", "Short")); site("dt", "datetime(date_length: long; time_length: medium)", ("Long", "Medium")); site("dt", "datetime(time_length: medium)", ("Medium", "Medium"))
site("list", "list", ("Unit", "Wide")); site("list", "list(list_type: and)", ("And", "Wide")); site("list", "list(list_type: or; list_style: short)", ("Or", "Short")); site("list", "list(list_style: narrow)", ("Unit", "Narrow"))
N_SITES_BEFORE_DUP = len(sites)
for kind, text, first, last, key_index in DUPS:
    site(kind, text, first)
out.append("pub struct SiteSpec { pub text: &'static str, pub spec: Spec, pub dup: bool }")
out.append("")
out.append("/// a formatter text with a repeated argument: (key index, call-site index, options if the first occurrence counts, options if the last one counts)")
out.append("pub struct DupSpec { pub key: usize, pub site: usize, pub first: Spec, pub last: Spec }")
out.append("")
out.append("pub const DUPS: &[DupSpec] = &[")
for j, (kind, text, first, last, key_index) in enumerate(DUPS):
    out.append(f"    DupSpec {{ key: {key_index}, site: {N_SITES_BEFORE_DUP + j}, first: {spec(kind, first)}, last: {spec(kind, last)} }},")
out.append("];")
out.append("")
out.append("pub const SITES: &[SiteSpec] = &[")
for j, (kind, fmt, exp) in enumerate(sites):
    out.append(f"    SiteSpec {{ text: {json.dumps(fmt)}, spec: {spec(kind, exp)}, dup: {'true' if j >= N_SITES_BEFORE_DUP else 'false'} }},")
out.append("];")
out.append("")
out.append("/// route 2: `td_format_string!` call sites (macro -> format_*_to_display)")
out.append("pub fn call_site(site: usize, locale: Locale, v: &Val) -> String {")
out.append("    match site {")
for i, (kind, fmt, exp) in enumerate(sites):
    arg = {"num": "v.num()", "cur": "v.num()", "date": "&v.date()", "time": "&v.time()", "dt": "&v.datetime()", "list": "v.list()"}[kind]
    out.append(f"        {i} => td_format_string!(locale, {arg}, formatter: {fmt}).to_string(),")
out.append("        _ => unreachable!(),")
out.append("    }")
out.append("}")
out.append("")
out.append("/// route 4: `t_format!` on a reactive context: the view is created once and must follow the context's locale")
out.append("pub fn call_site_ctx(site: usize, i18n: leptos_i18n::I18nContext<Locale>, vi: usize) -> Box<dyn Fn() -> String> {")
out.append("    // the value closure only captures Copy data, so the view closure `t_format!` builds is `Fn` (re-renderable)")
out.append("    let vals: &'static [Val] = crate::fixture::static_values();")
out.append("    match site {")
for i, (kind, fmt, exp) in enumerate(sites):
    acc = {"num": "x.num()", "cur": "x.num()", "date": "x.date()", "time": "x.time()", "dt": "x.datetime()", "list": "x.list()"}[kind]
    acc = acc.replace("x.", "vals[vi].")
    out.append(f"        {i} => {{ let view = t_format!(i18n, move || {acc}, formatter: {fmt}); Box::new(move || crate::fixture::render(view.clone())) }}")
out.append("        _ => unreachable!(),")
out.append("    }")
out.append("}")
out.append("")
out.append("/// route 4b: `t_format_string!` / `t_format_display!` on a reactive context (evaluated immediately for the current locale)")
out.append("pub fn call_site_ctx_string(site: usize, i18n: leptos_i18n::I18nContext<Locale>, v: &Val) -> String {")
out.append("    match site {")
for i, (kind, fmt, exp) in enumerate(sites):
    arg = {"num": "v.num()", "cur": "v.num()", "date": "&v.date()", "time": "&v.time()", "dt": "&v.datetime()", "list": "v.list()"}[kind]
    out.append(f"        {i} => format!(\"{{}}\\u{{2}}{{}}\", t_format_string!(i18n, {arg}, formatter: {fmt}), t_format_display!(i18n, {arg}, formatter: {fmt})),")
out.append("        _ => unreachable!(),")
out.append("    }")
out.append("}")
out.append("")
out.append("/// route 4c: `tu_format!` on a reactive context: the view is created under one locale and rendered after the locale changed;")
out.append("/// the untracked read still happens when the view is rendered, so it shows the locale current at that moment")
out.append("pub fn call_site_ctx_untracked(site: usize, i18n: leptos_i18n::I18nContext<Locale>, vi: usize) -> Box<dyn FnOnce() -> String> {")
out.append("    let vals: &'static [Val] = crate::fixture::static_values();")
out.append("    match site {")
for i, (kind, fmt, exp) in enumerate(sites):
    acc = {"num": "x.num()", "cur": "x.num()", "date": "x.date()", "time": "x.time()", "dt": "x.datetime()", "list": "x.list()"}[kind]
    acc = acc.replace("x.", "vals[vi].")
    out.append(f"        {i} => {{ let view = tu_format!(i18n, move || {acc}, formatter: {fmt}); Box::new(move || crate::fixture::render(view)) }}")
out.append("        _ => unreachable!(),")
out.append("    }")
out.append("}")
out.append("")
out.append("/// route 4d: `tu_format_string!` / `tu_format_display!` (evaluated immediately for the current locale, untracked)")
out.append("pub fn call_site_ctx_string_untracked(site: usize, i18n: leptos_i18n::I18nContext<Locale>, v: &Val) -> String {")
out.append("    match site {")
for i, (kind, fmt, exp) in enumerate(sites):
    arg = {"num": "v.num()", "cur": "v.num()", "date": "&v.date()", "time": "&v.time()", "dt": "&v.datetime()", "list": "v.list()"}[kind]
    out.append(f"        {i} => format!(\"{{}}\\u{{2}}{{}}\", tu_format_string!(i18n, {arg}, formatter: {fmt}), tu_format_display!(i18n, {arg}, formatter: {fmt})),")
out.append("        _ => unreachable!(),")
out.append("    }")
out.append("}")
out.append("")
out.append("/// route 1b: `td_display!` on a fixture key (same helper as td_string! but through the Display wrapper)")
out.append("pub fn call_key_display(key: usize, locale: Locale, v: &Val) -> String {")
out.append("    match key {")
for i, (name, text, kind, exp) in enumerate(keys):
    out.append(f"        {i} => td_display!(locale, {name}, v = {VAL_ARG[kind]}).to_string(),")
out.append("        _ => unreachable!(),")
out.append("    }")
out.append("}")
out.append("")
out.append("/// route 1c: number / currency keys fed with an `f64` (IntoFixedDecimal for f64, floating precision)")
out.append("pub fn call_key_f64(key: usize, locale: Locale, x: f64) -> Option<String> {")
out.append("    match key {")
for i, (name, text, kind, exp) in enumerate(keys):
    if kind in ("num", "cur"):
        out.append(f"        {i} => Some(td_string!(locale, {name}, v = x).to_string()),")
out.append("        _ => None,")
out.append("    }")
out.append("}")
out.append("")
out.append("/// `td_plural!` / `td_plural_ordinal!`: match on the plural category of a count")
out.append("pub fn call_plural_macro(ordinal: bool, locale: Locale, count: u64) -> &'static str {")
out.append("    use leptos_i18n::plurals::{td_plural, td_plural_ordinal};")
out.append("    let c = move || count;")
out.append("    if ordinal {")
out.append("        td_plural_ordinal!(locale, count = c, zero => \"zero\", one => \"one\", two => \"two\", few => \"few\", many => \"many\", _ => \"other\")")
out.append("    } else {")
out.append("        td_plural!(locale, count = c, zero => \"zero\", one => \"one\", two => \"two\", few => \"few\", many => \"many\", _ => \"other\")")
out.append("    }")
out.append("}")
out.append("")
out.append("/// `t_plural!` / `tu_plural!` (and the ordinal flavours) on a reactive context: closures that match the count against")
out.append("/// the plural rules of the locale current when they are called (`t_*`: a closure) or evaluated (`tu_*`: a value)")
out.append("pub fn call_ctx_plural(ordinal: bool, i18n: leptos_i18n::I18nContext<Locale>, count: u64) -> (Box<dyn Fn() -> &'static str>, &'static str) {")
out.append("    use leptos_i18n::plurals::{t_plural, t_plural_ordinal, tu_plural, tu_plural_ordinal};")
out.append("    let c = move || count;")
out.append("    if ordinal {")
out.append("        let a = t_plural_ordinal!(i18n, count = c, zero => \"zero\", one => \"one\", two => \"two\", few => \"few\", many => \"many\", _ => \"other\");")
out.append("        let b = tu_plural_ordinal!(i18n, count = c, zero => \"zero\", one => \"one\", two => \"two\", few => \"few\", many => \"many\", _ => \"other\");")
out.append("        (Box::new(a), b)")
out.append("    } else {")
out.append("        let a = t_plural!(i18n, count = c, zero => \"zero\", one => \"one\", two => \"two\", few => \"few\", many => \"many\", _ => \"other\");")
out.append("        let b = tu_plural!(i18n, count = c, zero => \"zero\", one => \"one\", two => \"two\", few => \"few\", many => \"many\", _ => \"other\");")
out.append("        (Box::new(a), b)")
out.append("    }")
out.append("}")
out.append("")
out.append("/// numbers of every integer type and f32 (`IntoFixedDecimal`), through a number / currency key")
out.append("pub fn call_key_typed(key: usize, locale: Locale, ty: usize) -> Option<String> {")
out.append("    macro_rules! typed { ($name:ident) => { match ty { " + " ".join(f"{i} => td_string!(locale, $name, v = {lit}).to_string()," for i, (lit, _) in enumerate(TYPED)) + " _ => return None } } }")
out.append("    Some(match key {")
for i, (name, text, kind, exp) in enumerate(keys):
    if kind in ("num", "cur") and i % 3 == 0:
        out.append(f"        {i} => typed!({name}),")
out.append("        _ => return None,")
out.append("    })")
out.append("}")
out.append("")
out.append("/// decimal text of each typed literal above, written by hand")
out.append("pub const TYPED: &[(&str, &str)] = &[")
for lit, dec in TYPED:
    out.append(f"    ({json.dumps(lit)}, {json.dumps(dec)}),")
out.append("];")
out.append("")
out.append("/// plural keys: td_string! with a count (get_plural_rules cache)")
out.append("pub fn call_plural(ordinal: bool, locale: Locale, count: u64) -> String {")
out.append("    if ordinal { td_string!(locale, pl_ord, count = count).to_string() } else { td_string!(locale, pl_card, count = count).to_string() }")
out.append("}")
with open(os.path.join(HERE, "src", "fixture_table.rs"), "w") as fh:
    fh.write("\n".join(out) + "\n")
print(len(keys), "keys,", len(sites), "sites")
