#!/usr/bin/env python3
"""Generates the hand-written part of the workload corpus (committed output, frozen).

Run once:  python3 gen_corpus.py   (needs PyYAML, only at generation time)
Each project P is written three times: P_json/, P_json5/, P_yaml/ with a Cargo.toml
holding the [package.metadata.leptos-i18n] section and a locales directory.
The corpus is *workload* for the fault simulator, not its search space.
"""
import json, os, shutil, sys
import yaml

HERE = os.path.dirname(os.path.abspath(__file__))

# ---------------------------------------------------------------- rich
RICH_EN = {
    "plain": "Plain text",
    "greeting": "Hello {{ name }}!",
    "styled": "<b>Bold <i>and italic</i></b> then {{ name }} after",
    "same_nested": "<b>outer <b>inner</b> tail</b> end",
    "three_comps": "<a>one</a><b>two</b><c>three</c> text after",
    "items_one": "{{ count }} item",
    "items_other": "{{ count }} items",
    "place_ordinal_one": "{{ count }}st place",
    "place_ordinal_two": "{{ count }}nd place",
    "place_ordinal_few": "{{ count }}rd place",
    "place_ordinal_other": "{{ count }}th place",
    "count_i8": ["i8", ["negative", "..0"], ["zero", 0], ["small", "1..=9"], ["big"]],
    "count_i64": ["i64", ["very negative", "..-1000"], ["around zero", "-1000..=1000"], ["large {{ count }}", "_"]],
    "count_u8_full": ["u8", ["none", 0], ["1 to 254", "1..=254"], ["max", 255]],
    "count_u64": ["u64", ["none", 0], ["many", "1.."]],
    "count_f64": ["f64", ["zero", 0.0], ["half", "0.5"], ["low", "..0"], ["other {{ count }}"]],
    "count_f32": ["f32", ["unit", "0..=1"], ["other"]],
    "multi": [["a", 0, "3..5", "10..=56"], ["b", "0..3", "..78"], ["c {{ count }} and {{ other }}"]],
    "range_comp": [["<b>none</b>", 0], ["<i>{{ count }}</i> of {{ total }}", "_"]],
    "menu": {
        "file": {
            "open": "Open",
            "close": "Close {{ what }}",
            "recent": {"empty": "No recent files", "count_one": "{{ count }} recent file", "count_other": "{{ count }} recent files"},
        },
        "edit": "Edit",
        "view": {"zoom": [["fit", 0], ["{{ count }}%", "_"]]},
    },
    "fk_plain": "see $t(plain)",
    "fk_args": "$t(greeting, {\"name\": \"World\"})",
    "fk_nested_arg": "$t(greeting, {\"name\": \"$t(plain)\"})",
    "fk_var_arg": "<<$t(greeting, {\"name\": \"{{ who }}\"})>>",
    "fk_to_plural": "$t(items, {\"count\": \"{{ n }}\"}) total",
    "fk_to_plural_lit": "$t(items, {\"count\": 1})",
    "fk_to_range": "$t(count_i8, {\"count\": 5})",
    "fk_to_range_var": "$t(count_u64, {\"count\": \"{{ k }}\"})",
    "fk_to_sub": "$t(menu.file.open) / $t(menu.edit)",
    "fk_two": "$t(items, {\"count\": \"{{ a }}\"}) / $t(place, {\"count\": \"{{ b }}\"})",
    "fk_chain": "[$t(fk_plain)]",
    "cyc_a": "$t(cyc_b) from a",
    "cyc_b": "end of chain b",
    "cyc_c": "$t(cyc_a, {\"x\": \"$t(cyc_b)\"}) from c",
    "fkp_one": "$t(plain): one",
    "fkp_other": "$t(greeting, {\"name\": \"{{ count }}\"}) many",
    "fkr": [["$t(plain) zero", 0], ["$t(plain) {{ count }}"]],
    "fmt_num": "{{ n, number }}",
    "fmt_num_opts": "{{ n, number(grouping_strategy: always) }} / {{ m, number( grouping_strategy :min2 ) }}",
    "fmt_cur": "{{ n, currency }} {{ m, currency(width: narrow; currency_code: EUR) }}",
    "fmt_date": "{{ d, date }} {{ d2, date(date_length: full) }} {{ d3, date(date_length: short) }}",
    "fmt_time": "{{ t, time }} {{ t2, time(time_length: long) }}",
    "fmt_datetime": "{{ dt, datetime(date_length: long; time_length: medium) }}",
    "fmt_list": "{{ l, list }} {{ l2, list(list_type: or; list_style: short) }} {{ l3, list(list_type: unit; list_style: narrow) }}",
    "fmt_unknown_arg": "{{ n, number(bogus: 1; grouping_strategy: never) }}",
    "lit_bool": True,
    "lit_int": 42,
    "lit_neg": -7,
    "lit_float": 1.5,
    "dup_a": "Same text",
    "dup_b": "Same text",
    "only_en": "Only in the default locale",
    "explicit_null": "Overridden by null elsewhere",
    "mixed_kinds": "just a string in en",
}

RICH_FR = {
    "plain": "Texte simple",
    "greeting": "Bonjour {{ name }} !",
    "styled": "<b>Gras <i>et italique</i></b> puis {{ name }} après",
    "same_nested": "<b>dehors <b>dedans</b> queue</b> fin",
    "three_comps": "<a>un</a><b>deux</b><c>trois</c> texte après",
    "items_one": "{{ count }} élément",
    "items_other": "{{ count }} éléments",
    "place_ordinal_one": "{{ count }}ère place",
    "place_ordinal_other": "{{ count }}ème place",
    "count_i8": ["i8", ["négatif", "..0"], ["zéro", 0], ["petit", "1..=9"], ["grand"]],
    "count_i64": ["i64", ["très négatif", "..-1000"], ["autour de zéro", "-1000..=1000"], ["grand {{ count }}", "_"]],
    "count_u8_full": ["u8", ["aucun", 0], ["1 à 254", "1..=254"], ["max", 255]],
    "count_u64": ["u64", ["aucun", 0], ["beaucoup", "1.."]],
    "count_f64": ["f64", ["zéro", 0.0], ["demi", "0.5"], ["bas", "..0"], ["autre {{ count }}"]],
    "count_f32": ["f32", ["unité", "0..=1"], ["autre"]],
    "multi": [["a", 0, "3..5", "10..=56"], ["b", "0..3", "..78"], ["c {{ count }} et {{ other }}"]],
    "range_comp": [["<b>rien</b>", 0], ["<i>{{ count }}</i> sur {{ total }}", "_"]],
    "menu": {
        "file": {
            "open": "Ouvrir",
            "close": "Fermer {{ what }}",
            "recent": {"empty": "Aucun fichier récent", "count_one": "{{ count }} fichier récent", "count_other": "{{ count }} fichiers récents"},
        },
        "edit": "Éditer",
        "view": {"zoom": [["ajusté", 0], ["{{ count }} %", "_"]]},
    },
    "fk_plain": "voir $t(plain)",
    "fk_args": "$t(greeting, {\"name\": \"le Monde\"})",
    "fk_nested_arg": "$t(greeting, {\"name\": \"$t(plain)\"})",
    "fk_var_arg": "«$t(greeting, {\"name\": \"{{ who }}\"})»",
    "fk_to_plural": "$t(items, {\"count\": \"{{ n }}\"}) au total",
    "fk_to_plural_lit": "$t(items, {\"count\": 1})",
    "fk_to_range": "$t(count_i8, {\"count\": 5})",
    "fk_to_range_var": "$t(count_u64, {\"count\": \"{{ k }}\"})",
    "fk_to_sub": "$t(menu.file.open) / $t(menu.edit)",
    "fk_two": "$t(items, {\"count\": \"{{ a }}\"}) / $t(place, {\"count\": \"{{ b }}\"})",
    "fk_chain": "[$t(fk_plain)]",
    "cyc_a": "fin de chaîne a",
    "cyc_b": "$t(cyc_c) depuis b",
    "cyc_c": "$t(cyc_a) depuis c",
    "fkp_one": "$t(plain) : un",
    "fkp_other": "$t(plain) : {{ count }}",
    "fkr": [["$t(plain) zéro", 0], ["$t(plain) {{ count }}"]],
    "fmt_num": "{{ n, number }}",
    "fmt_num_opts": "{{ n, number(grouping_strategy: always) }} / {{ m, number(grouping_strategy: min2) }}",
    "fmt_cur": "{{ n, currency }} {{ m, currency(width: narrow; currency_code: EUR) }}",
    "fmt_date": "{{ d, date }} {{ d2, date(date_length: full) }} {{ d3, date(date_length: short) }}",
    "fmt_time": "{{ t, time }} {{ t2, time(time_length: long) }}",
    "fmt_datetime": "{{ dt, datetime(date_length: long; time_length: medium) }}",
    "fmt_list": "{{ l, list }} {{ l2, list(list_type: or; list_style: short) }} {{ l3, list(list_type: unit; list_style: narrow) }}",
    "fmt_unknown_arg": "{{ n, number(grouping_strategy: never) }}",
    "lit_bool": False,
    "lit_int": 43,
    "lit_neg": -8,
    "lit_float": "un virgule cinq",
    "dup_a": "Même texte",
    "dup_b": "Même texte",
    "explicit_null": None,
    "mixed_kinds": [["une plage en fr", 0], ["{{ count }} en fr"]],
}

# fr-CA inherits fr: only a few overrides
RICH_FRCA = {
    "plain": "Texte simple (Canada)",
    "menu": {"file": {"open": "Ouvrir (CA)"}},
    "dup_a": "Même texte",
    "mixed_kinds": "<b>{{ who }}</b> au Canada",
}

RICH_RU = {
    "plain": "Простой текст",
    "greeting": "Привет, {{ name }}!",
    "styled": "<b>Жирный <i>и курсив</i></b> затем {{ name }} после",
    "items_one": "{{ count }} предмет",
    "items_few": "{{ count }} предмета",
    "items_many": "{{ count }} предметов",
    "items_other": "{{ count }} предмета",
    "place_ordinal_other": "{{ count }}-е место",
    "menu": {
        "file": {
            "open": "Открыть",
            "close": "Закрыть {{ what }}",
            "recent": {"empty": "Нет недавних файлов", "count_one": "{{ count }} файл", "count_few": "{{ count }} файла", "count_many": "{{ count }} файлов", "count_other": "{{ count }} файла"},
        },
        "edit": "Правка",
    },
    "fk_to_plural": "Всего: $t(items, {\"count\": \"{{ n }}\"})",
    "fk_to_plural_lit": "$t(items, {\"count\": 21})",
    "dup_a": "Один текст",
    "dup_b": "Один текст",
    "lit_float": 2.5,
}

RICH_AR = {
    "plain": "نص عادي",
    "greeting": "مرحبا {{ name }}!",
    "items_zero": "لا عناصر",
    "items_one": "عنصر واحد",
    "items_two": "عنصران",
    "items_few": "{{ count }} عناصر",
    "items_many": "{{ count }} عنصرًا",
    "items_other": "{{ count }} عنصر",
    "menu": {"edit": "تحرير"},
    "fk_to_plural": "$t(items, {\"count\": \"{{ n }}\"}) المجموع",
}

RICH_CFG = '''default = "en"
locales = ["en", "fr", "fr-CA", "ru", "ar"]
inherits = { fr-CA = "fr" }
'''

# ---------------------------------------------------------------- unicode (C11 string pool)
UNI_EN = {
    "quotes": "She said \"hi\" and 'bye'",
    "backslash": "C:\\path\\to\\file and \\n not a newline",
    "controls": "bell\u0007 null-free \u0001\u001f del\u007f tab\t nl\n cr\r end",
    "nbsp": "10\u00a0000\u00a0€ and narrow\u202f1",
    "zero_width": "zero\u200bwidth\u200cnon\u200djoiner\ufeffbom",
    "combining_first": "\u0301a starts with a combining accent, e\u0301 inside",
    "rtl": "mark\u200f rlo\u202e reversed\u202c pop",
    "astral": "😀 𝔘𝔫𝔦𝔠𝔬𝔡𝔢 🏳️‍🌈 \U0010ffff",
    "separators": "line\u2028sep para\u2029sep",
    "html": "</script><!-- <script> ]]> &amp; <\\/script>",
    "braces": "lone { and } and {{ unclosed and }} closed and $t( unclosed",
    "multibyte_var": "é{{ v }}é€{{ w }}ü",
    "multibyte_comp": "é<b>ü€</b>ß<i>𝔘</i>😀",
    "multibyte_fk": "€$t(quotes)€",
    "c1": "c1 \u0080\u009f controls",
    "surrogate_edge": "\ud7ff\ue000\ufffd\ufffe",
    "sub": {"deep": {"quote": "nested \"quote\" \\ and \u00a0", "again": "nested \"quote\" \\ and \u00a0"}},
    "dup_unicode_a": "\u00a0",
    "dup_unicode_b": "\u00a0",
    "range_uni": [["\u200bzero\"", 0], ["\\{{ count }}\u00a0«»"]],
    "plural_uni_one": "un\u00a0\"{{ count }}\"",
    "plural_uni_other": "des\u00a0\\{{ count }}\\",
}
UNI_FR = {
    "quotes": "Elle a dit « salut » et \"ciao\"",
    "backslash": "C:\\chemin\\vers\\fichier",
    "controls": "cloche\u0007 \u0001\u001f suppr\u007f tab\t nl\n fin",
    "nbsp": "10\u00a0000\u00a0€ et fine\u202f1",
    "astral": "😀 𝔉𝔯 🇫🇷",
    "html": "</SCRIPT ><!-- fr",
    "multibyte_var": "à{{ v }}ç{{ w }}œ",
    "multibyte_comp": "à<b>ç</b>œ<i>ÿ</i>",
    "multibyte_fk": "«$t(quotes)»",
    "sub": {"deep": {"quote": "imbriqué \"guillemet\" \\"}},
    "range_uni": [["\u200bzéro\"", 0], ["\\{{ count }}\u00a0«»"]],
    "plural_uni_one": "un\u00a0\"{{ count }}\"",
    "plural_uni_other": "des\u00a0\\{{ count }}\\",
}
UNI_JA = {
    "quotes": "「こんにちは」と\"さようなら\"",
    "astral": "𠮷野家 😀",
    "multibyte_var": "名前{{ v }}様{{ w }}殿",
    "multibyte_comp": "太<b>字</b>と<i>斜体</i>",
    "sub": {"deep": {"quote": "入れ子 \"引用\" \\", "again": "もう一度"}},
    "plural_uni_other": "{{ count }}\u3000個",
}
UNI_CFG = '''default = "en"
locales = ["en", "fr", "ja"]
inherits = { ja = "en" }
locales-dir = "./i18n/strings"
'''

# ---------------------------------------------------------------- namespaces
NS_CFG = '''default = "en"
locales = ["en", "de", "pl"]
namespaces = ["common", "home", "settings"]
'''
NS = {
    "en": {
        "common": {"hello": "Hello", "bye": "Goodbye {{ name }}", "app": {"name": "The App", "version": "v{{ v }}"},
                   "files_one": "{{ count }} file", "files_other": "{{ count }} files"},
        "home": {"title": "$t(common:hello) from $t(common:app.name)", "lead": "<b>Welcome</b> to $t(common:app.name)",
                 "stats": {"files": "$t(common:files, {\"count\": \"{{ n }}\"})", "none": "nothing"},
                 "visits": [["never", 0], ["once", 1], ["{{ count }} times"]]},
        "settings": {"title": "Settings", "lang": {"label": "Language", "hint": "Currently {{ current }}"},
                     "danger": {"zone": {"delete": "Delete everything", "confirm": "Type \"{{ word }}\" to confirm"}}},
    },
    "de": {
        "common": {"hello": "Hallo", "bye": "Tschüss {{ name }}", "app": {"name": "Die App", "version": "v{{ v }}"},
                   "files_one": "{{ count }} Datei", "files_other": "{{ count }} Dateien"},
        "home": {"title": "$t(common:hello) von $t(common:app.name)", "lead": "<b>Willkommen</b> bei $t(common:app.name)",
                 "stats": {"files": "$t(common:files, {\"count\": \"{{ n }}\"})"},
                 "visits": [["nie", 0], ["einmal", 1], ["{{ count }} mal"]]},
        "settings": {"title": "Einstellungen", "lang": {"label": "Sprache"},
                     "danger": {"zone": {"delete": "Alles löschen"}}},
    },
    "pl": {
        "common": {"hello": "Cześć", "bye": "Do widzenia {{ name }}", "app": {"name": "Aplikacja"},
                   "files_one": "{{ count }} plik", "files_few": "{{ count }} pliki", "files_many": "{{ count }} plików", "files_other": "{{ count }} pliku"},
        "home": {"title": "$t(common:hello) z $t(common:app.name)",
                 "visits": [["nigdy", 0], ["{{ count }} razy"]]},
        "settings": {"title": "Ustawienia", "danger": {"zone": {"confirm": "Wpisz „{{ word }}”"}}},
    },
}


# ---------------------------------------------------------------- emitters
def to_json(obj, ascii_only=False):
    return json.dumps(obj, indent=2, ensure_ascii=ascii_only) + "\n"


def to_json5(obj):
    # JSON with a comment header, single-line comments and trailing commas: still a superset-valid json5
    body = json.dumps(obj, indent=2, ensure_ascii=False)
    # the json5 crate rejects raw U+2028 / U+2029 inside strings: escape them
    body = body.replace("\u2028", "\\u2028").replace("\u2029", "\\u2029")
    lines = body.split("\n")
    out = ["// generated corpus file (json5)"]
    for i, line in enumerate(lines):
        nxt = lines[i + 1].strip() if i + 1 < len(lines) else ""
        if nxt.startswith(("}", "]")) and not line.rstrip().endswith(("{", "[", ",")):
            line = line + ","  # trailing comma
        out.append(line)
    return "\n".join(out) + "\n"


def to_yaml(obj):
    return "---\n" + yaml.safe_dump(obj, allow_unicode=True, default_flow_style=False, sort_keys=False, width=10000)


EMIT = {"json": (to_json, "json"), "json5": (to_json5, "json5"), "yaml": (to_yaml, "yaml")}


def cargo_toml(name, cfg):
    if name.startswith("edge"):
        # non-ASCII text before the section (authors, a comment)
        return f'''[package]
name = "{name}"
version = "0.1.0"
edition = "2021"
authors = ["日本 太郎 <taro@example.jp>", "Zoë Müller"]
# configuration de l'internationalisation — 国際化の設定

[dependencies]

[package.metadata.leptos-i18n]
{cfg}'''
    return f'''[package]
name = "{name}"
version = "0.1.0"
edition = "2021"

[dependencies]

[package.metadata.leptos-i18n]
{cfg}'''


def write(path, text):
    os.makedirs(os.path.dirname(path), exist_ok=True)
    with open(path, "w", encoding="utf-8", newline="") as f:
        f.write(text)


def project(name, cfg, locales_dir, files):
    """files: {relative path without extension: object}"""
    for fmt, (emit, ext) in EMIT.items():
        root = os.path.join(HERE, f"{name}_{fmt}")
        if os.path.exists(root):
            shutil.rmtree(root)
        write(os.path.join(root, "Cargo.toml"), cargo_toml(f"{name}_{fmt}", cfg))
        for rel, obj in files.items():
            if fmt == "json" and name == "unicode" and rel.endswith("fr"):
                text = to_json(obj, ascii_only=True)  # \uXXXX escapes incl. surrogate pairs
            else:
                text = emit(obj)
            write(os.path.join(root, locales_dir, f"{rel}.{ext}"), text)


# ---------------------------------------------------------------- many locales / many branches / inherits cycle
MANY_LOCALES = ["en", "fr", "de", "es", "it", "pt", "nl", "sv", "da", "fi", "pl", "cs", "hu", "ro", "tr", "el", "ja", "ko"]
MANY_CFG = 'default = "en"\nlocales = [' + ", ".join(f'"{l}"' for l in MANY_LOCALES) + ']\n'

def many_file(l):
    d = {
        "title": f"Title ({l})",
        "welcome": f"Welcome {{{{ name }}}} ({l})",
        "steps": [[f"step {i} ({l})", i] for i in range(20)] + [[f"many steps {{{{ count }}}} ({l})"]],
        "level": ["u8"] + [[f"level {i} ({l})", f"{i * 10}..{i * 10 + 10}"] for i in range(18)] + [[f"top ({l})", "180.."]],
    }
    if l in ("ja", "ko"):
        del d["title"]  # defaulted
    return d

CYC_CFG = '''default = "en"
locales = ["en", "fr", "es", "de", "it"]
inherits = { fr = "es", es = "fr", de = "fr", it = "de" }
'''
CYC = {
    "en": {"a": "a (en)", "b": "b {{ x }} (en)", "c": {"d": "c.d (en)", "e": [["zero", 0], ["{{ count }} (en)"]]}, "f": "$t(a) via f (en)", "g": "g (en)"},
    "fr": {"a": "a (fr)", "c": {"d": "c.d (fr)"}, "g": None},
    "es": {"a": "a (es)", "c": {"e": [["cero", 0], ["{{ count }} (es)"]]}},
    "de": {"b": "b {{ x }} (de)", "g": "g (de)"},
    "it": {"a": None, "f": "$t(a) via f (it)"},
}


EMPTYNS_CFG = 'default = "en"\nlocales = ["en", "fr"]\nnamespaces = []\n'


# ---------------------------------------------------------------- edge shapes (legal, rarely written)
EDGE_CFG = '''default = "en"
locales = ["fr", "fr-CA", "zh-Hant-TW"]
inherits = { fr-CA = "fr" }
translations-path = "i18n/{locale}.json"
'''
EDGE = {
    "en": {
        # an ordinal plural whose own name ends in `_ordinal`, with foreign keys inside its forms
        "rank_ordinal_ordinal_one": "$t(word_place) {{ count }}st",
        "rank_ordinal_ordinal_two": "$t(word_place) {{ count }}nd",
        "rank_ordinal_ordinal_few": "{{ count }}rd $t(word_place)",
        "rank_ordinal_ordinal_other": "{{ count }}th $t(word_place)",
        "word_place": "place",
        # keys that sort between a plural's base name and its forms
        "item_label": "Items:",
        "item_one": "{{ count }} item",
        "item_other": "{{ count }} items",
        "item_total": "Total",
        "itemise": "itemise",
        # foreign keys into plurals and ranges with literal counts of every shape
        "fk_float": "$t(item, {\"count\": 2.5})",
        "fk_float_whole": "$t(item, {\"count\": 2.0})",
        "fk_float_neg": "$t(item, {\"count\": -0.5})",
        "fk_float_exp": "$t(item, {\"count\": 1e3})",
        "fk_big": "$t(item, {\"count\": 18446744073709551615})",
        "fk_ordinal": "$t(rank_ordinal, {\"count\": 2})",
        "temp": ["f64", ["freezing", "..0.0"], ["mild {{ count }}", "0.0..=25.5"], ["hot"]],
        "fk_range_float": "$t(temp, {\"count\": -3.25}) / $t(temp, {\"count\": 25.5}) / $t(temp, {\"count\": 99.5})",
        "neg": ["i16", ["deep", "-32768..=-100"], ["shallow", "-99..0"], ["zero", 0], ["positive"]],
        "fk_range_neg": "$t(neg, {\"count\": -32768}) $t(neg, {\"count\": -1})",
        # keys that differ only by `-` / `_`
        "dash-key": "with a dash",
        "dash_key2": "with an underscore",
        "a": {"b-c": {"d_e": "deep {{ x }}", "d-f": "$t(a.b-c.d_e, {\"x\": \"y\"})"}},
        "only_numbers": {"n": 1, "b": True, "f": 2.5},
        # more than 32 alternatives in one value (a branch per day of the month, a fallback, interpolated)
        "day_of_month": ["u8"] + [[f"day {d} of {{{{ month }}}}", d] for d in range(1, 34)] + [["some other day of {{ month }} ({{ count }})"]],
        # exactly N alternatives for the sizes around the nesting limits of the generated `EitherOf` types
        **{f"alt_{n}": ["u8"] + [[f"branch {d}", d] for d in range(1, n)] + [["fallback"]] for n in (15, 16, 17, 30, 31, 32, 33, 46, 47, 48, 49, 62, 63, 64, 65)},
        # line terminators of every kind inside a text
        "crlf": "Dear customer,\r\nyour order has shipped.\r\n",
        "lone_cr": "a\rb\n\rc\r",
        "seps": "line\u2028sep para\u2029sep \u2029\u2028 end\u2029",
        # long texts of equal length that only differ in the middle
        "terms_30": "You may return any item in its original packaging for a full refund within 30 days of the delivery date, provided that the receipt is enclosed with the parcel.",
        "terms_14": "You may return any item in its original packaging for a full refund within 14 days of the delivery date, provided that the receipt is enclosed with the parcel.",
        "terms_range": [["no returns", 0], ["You may return any item in its original packaging for a full refund within 30 days of the delivery date, provided that the receipt is enclosed with the parcel."]],
        "escaped": "{{ \"literal\" }} braces? no: plain",
        "comp_attr": "<a>link</a> and <b>bold {{ x }}</b>",
    },
    "fr": {
        "rank_ordinal_ordinal_one": "$t(word_place) {{ count }}re",
        "rank_ordinal_ordinal_other": "{{ count }}e $t(word_place)",
        "word_place": "place",
        "item_label": "Éléments :",
        "item_one": "{{ count }} élément",
        "item_other": "{{ count }} éléments",
        "item_total": "Total",
        "fk_float": "$t(item, {\"count\": 1.5})",
        "fk_float_whole": "$t(item, {\"count\": 0.0})",
        "temp": ["f64", ["gel", "..0.0"], ["doux {{ count }}", "0.0..=25.5"], ["chaud"]],
        "a": {"b-c": {"d_e": "profond {{ x }}"}},
        "only_numbers": {"n": 2, "b": False, "f": 3.5},
        "terms_30": "Vous pouvez retourner tout article dans son emballage d'origine pour un remboursement complet sous 30 jours après la date de livraison, si le reçu est joint au colis.",
        "terms_14": "Vous pouvez retourner tout article dans son emballage d'origine pour un remboursement complet sous 14 jours après la date de livraison, si le reçu est joint au colis.",
    },
    "fr-CA": {"a": None},
    # a locale listed after an inheriting locale that has nothing for a subkeys group, defining that group itself
    "zh-Hant-TW": {"word_place": "名", "item_other": "{{ count }} 個", "item_label": "項目：", "a": {"b-c": {"d_e": "深 {{ x }}"}}, "only_numbers": {"n": 3, "b": True, "f": 4.5}},
}
del EDGE["en"]["escaped"]

EDGENS_CFG = '''default = "en"
locales = ["en", "fr", "fr-CA"]
namespaces = ["numbers", "texts", "side-bar"]
inherits = { fr-CA = "fr" }
translations-path = "i18n/{namespace}/{locale}.json"
'''
EDGENS = {
    "en": {"numbers": {"answer": 42, "pi": 3.14, "flag": True, "nested": {"n": 1}},
           "texts": {"hello": "Hello", "answer": "$t(numbers:answer) is the answer", "count_one": "one", "count_other": "{{ count }}"},
           "side-bar": {"title": "Side bar", "entry": "Entry {{ n }}"}},
    "fr": {"numbers": {"answer": 42, "pi": 3.14, "flag": False, "nested": {"n": 2}},
           "texts": {"hello": "Bonjour", "count_one": "un", "count_other": "{{ count }}"},
           "side-bar": {"title": "Barre latérale"}},
    "fr-CA": {"numbers": {}, "texts": {}, "side-bar": {"entry": "Entrée {{ n }}"}},
}


def main():
    import sys
    only = set(sys.argv[1:])
    real_project = project
    def project_filtered(name, *a):
        if not only or name in only:
            real_project(name, *a)
    globals()["project"] = project_filtered
    project("edge", EDGE_CFG, "locales", EDGE)
    files = {}
    for loc, nss in EDGENS.items():
        for ns, obj in nss.items():
            files[f"{loc}/{ns}"] = obj
    project("edgens", EDGENS_CFG, "locales", files)
    project("emptyns", EMPTYNS_CFG, "locales", {"en": {"unused": "never read"}, "fr": {"unused": "jamais lu"}})
    project("manyloc", MANY_CFG, "locales", {l: many_file(l) for l in MANY_LOCALES})
    project("cyclic", CYC_CFG, "locales", CYC)
    project("rich", RICH_CFG, "locales", {"en": RICH_EN, "fr": RICH_FR, "fr-CA": RICH_FRCA, "ru": RICH_RU, "ar": RICH_AR})
    project("unicode", UNI_CFG, "i18n/strings", {"en": UNI_EN, "fr": UNI_FR, "ja": UNI_JA})
    files = {}
    for loc, nss in NS.items():
        for ns, obj in nss.items():
            files[f"{loc}/{ns}"] = obj
    project("nsrich", NS_CFG, "locales", files)


if __name__ == "__main__":
    main()
