#!/usr/bin/env python3
"""Regenerates the table of section 12 of DESIGN.md from seeded/*/meta.json."""
import glob, json, os, re
ROOT = os.path.dirname(os.path.dirname(os.path.abspath(__file__)))
rows = []
for d in sorted(glob.glob(os.path.join(ROOT, "seeded", "*"))):
    mp = os.path.join(d, "meta.json")
    if not os.path.exists(mp):
        continue
    m = json.load(open(mp))
    readme = open(os.path.join(d, "README.md")).read() if os.path.exists(os.path.join(d, "README.md")) else ""
    title = next((l.strip("# ").strip() for l in readme.splitlines() if l.startswith("#")), "")
    first = ""
    # `check_detects`: the result when the change was first tried; `recheck_detects`: the latest re-run of the current check
    now = m.get("recheck_detects") if m.get("recheck_detects") is not None else m.get("check_detects")
    output = m.get("check_output") if m.get("check_detects") else (m.get("recheck_output") or m.get("check_output"))
    for l in (output or "").splitlines():
        if l.startswith("violation:"):
            parts = l.split(" :: ")
            first = (parts[0].replace("violation: ", "") + ": " + (parts[1] if len(parts) > 1 else ""))[:110]
            break
    caught = "yes" if now else "**no**"
    if m.get("missed_before_strengthening"):
        caught += " (missed at first)"
    rows.append((os.path.basename(d), m["property"], title[:90].replace("|", "/"), caught, first.replace("|", "/")))
table = ["| change | property | what it is (from its README) | caught by `./check <ID> --tier quick` | first violation class reported |", "|---|---|---|---|---|"]
for r in rows:
    table.append("| `seeded/%s` | %s | %s | %s | %s |" % r)
caught = sum(1 for r in rows if r[3].startswith("yes"))
missed_first = sum(1 for r in rows if "missed at first" in r[3])
table.append("")
table.append(f"{caught} of {len(rows)} recorded changes are caught by the quick tier of the property they break; {missed_first} of them were missed when first tried and are caught since the check was strengthened (column 4, `strengthening` in their meta.json).")
p = os.path.join(ROOT, "DESIGN.md")
s = open(p).read()
block = "<!-- SEEDED-TABLE-BEGIN -->\n" + "\n".join(table) + "\n<!-- SEEDED-TABLE-END -->"
s = re.sub(r"<!-- SEEDED-TABLE-BEGIN -->.*<!-- SEEDED-TABLE-END -->", lambda _m: block, s, flags=re.S)
open(p, "w").write(s)
print(f"{caught}/{len(rows)}")
