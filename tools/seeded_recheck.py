#!/usr/bin/env python3
"""Re-run the registered quick check of every recorded seeded change against the *current* checks.

usage: seeded_recheck.py [name-prefix ...]      (default: every directory under /verif/seeded)
For each change: apply patch.diff to /repo, run ./check <ID> --tier quick, undo the patch, restore evidence and
binaries. Records `recheck_detects` and `recheck_output` in meta.json. /repo must be clean."""
import glob, json, os, subprocess, sys, time
ROOT = "/verif"
sel = sys.argv[1:]
dirs = sorted(glob.glob(os.path.join(ROOT, "seeded", "*")))
if sel:
    dirs = [d for d in dirs if any(os.path.basename(d).startswith(s) for s in sel)]
def sh(cmd, cwd):
    return subprocess.run(cmd, cwd=cwd, shell=isinstance(cmd, str), stdout=subprocess.PIPE, stderr=subprocess.STDOUT, text=True)
if sh(["git", "status", "--porcelain"], "/repo").stdout.strip():
    print("/repo is not clean"); sys.exit(2)
engines = set()
for d in dirs:
    mp = os.path.join(d, "meta.json")
    m = json.load(open(mp))
    prop = m["property"]
    patch = os.path.join(d, "patch.diff")
    r = sh(["git", "apply", patch], "/repo")
    if r.returncode != 0:
        m["recheck_detects"] = None
        m["recheck_output"] = "patch no longer applies: " + r.stdout[-300:]
        json.dump(m, open(mp, "w"), indent=1)
        print(os.path.basename(d), "PATCH DOES NOT APPLY")
        continue
    t0 = time.time()
    try:
        out = sh(f"./check {prop} --tier quick 2>&1 | grep -E 'VIOLATION|^violation|KNOWN|HARNESS|done' | head -20", ROOT).stdout
    finally:
        sh(["git", "checkout", "--", "."], "/repo")
        for f in os.listdir(os.path.join(ROOT, "replays")):
            if f.endswith(".json"):
                os.remove(os.path.join(ROOT, "replays", f))
        sh(["git", "checkout", "--", "evidence"], ROOT)
    m["recheck_detects"] = "VIOLATION property=" in out
    m["recheck_output"] = out[-1500:]
    json.dump(m, open(mp, "w"), indent=1)
    engines.add({"C09": "fs", "C11": "fs", "C18": "cache"}.get(prop, "world"))
    print(os.path.basename(d), "detected" if m["recheck_detects"] else "MISSED", f"{time.time()-t0:.0f}s", flush=True)
for e in engines:
    sh(["./build.sh", e], ROOT)
