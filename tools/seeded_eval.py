#!/usr/bin/env python3
"""Confirm a sub-agent's mutation in its scratch worktree, run our check against it on /repo, record it.

usage: seeded_eval.py <PROPERTY> <worktree> <mN> [--keep-if-unconfirmed]
Steps: (1) worktree clean -> apply patch -> test suite must pass -> demo must FAIL -> revert -> demo must PASS;
       (2) apply the patch to /repo, run ./check <PROPERTY> --tier quick, undo the patch straight afterwards;
       (3) copy patch.diff, demo/, README.md to /verif/seeded/<PROPERTY>-<mN>/ with meta.json.
"""
import json, os, shutil, subprocess, sys, time

prop, wt, m = sys.argv[1], sys.argv[2], sys.argv[3]
label = next((a.split("=", 1)[1] for a in sys.argv if a.startswith("--label=")), m)
mdir = os.path.join(wt, "mutations", m)
patch = os.path.join(mdir, "patch.diff")
env = dict(os.environ, CARGO_NET_OFFLINE="true")

def run(cmd, cwd, extra_env=None, timeout=3600):
    e = dict(env)
    if extra_env:
        e.update(extra_env)
    t0 = time.time()
    r = subprocess.run(cmd, cwd=cwd, env=e, shell=isinstance(cmd, str), stdout=subprocess.PIPE, stderr=subprocess.STDOUT, text=True, timeout=timeout)
    return r.returncode, r.stdout, time.time() - t0

def git(args, cwd):
    return run(["git"] + args, cwd)

meta = {"property": prop, "mutation": label, "worktree": wt, "ran": []}
# ---- 1. confirm in the scratch worktree
git(["checkout", "--", "."], wt)
code, out, _ = git(["apply", "--check", patch], wt)
meta["patch_applies"] = code == 0
if code != 0:
    print("patch does not apply:", out); sys.exit(2)
git(["apply", patch], wt)
code, out, dt = run("cargo test --workspace --no-fail-fast --offline 2>&1 | grep -E '^test result|FAILED|^error' | sort | uniq -c", wt, {"CARGO_TARGET_DIR": os.path.join(wt, "target")})
failed = ("FAILED" in out) or ("error" in out) or ("test result: ok" not in out)
meta["suite_passes_with_patch"] = not failed
meta["ran"].append(f"cargo test --workspace --no-fail-fast --offline  (with patch, {dt:.0f}s): {'pass' if not failed else 'FAIL'}")
demo = os.path.join(mdir, "demo")
demo_env = {"CARGO_TARGET_DIR": os.path.join(wt, "target", "demos")}
# demos are either a program (cargo run) or a test crate (cargo test)
demo_cmd = "cargo run --offline" if os.path.exists(os.path.join(demo, "src", "main.rs")) else "cargo test --offline"
meta["demo_cmd"] = demo_cmd
code, out, dt = run(f"{demo_cmd} 2>&1 | tail -15", demo, demo_env)
code_with, _, _ = run(f"{demo_cmd} >/dev/null 2>&1", demo, demo_env)
meta["demo_fails_with_patch"] = code_with != 0
meta["demo_output_with_patch"] = out[-1500:]
meta["ran"].append(f"demo with patch: exit {code_with}")
git(["checkout", "--", "."], wt)
code_without, _, _ = run(f"{demo_cmd} >/dev/null 2>&1", demo, demo_env)
meta["demo_passes_without_patch"] = code_without == 0
meta["ran"].append(f"demo without patch: exit {code_without}")
confirmed = meta["suite_passes_with_patch"] and meta["demo_fails_with_patch"] and meta["demo_passes_without_patch"]
meta["confirmed"] = confirmed
print(json.dumps({k: meta[k] for k in ("suite_passes_with_patch", "demo_fails_with_patch", "demo_passes_without_patch")}))
# ---- 2. our check against the mutated /repo
code, out, _ = git(["status", "--porcelain"], "/repo")
if out.strip():
    print("/repo is not clean:", out); sys.exit(2)
code, out, _ = git(["apply", patch], "/repo")
if code != 0:
    print("patch does not apply to /repo:", out); sys.exit(2)
try:
    rdir = f"/dev/shm/seeded-replays-{prop}-{m}"
    shutil.rmtree(rdir, ignore_errors=True)
    # run the registered quick command, but keep replay files of a mutant out of /verif/replays
    code, out, dt = run(f"./check {prop} --tier quick 2>&1 | grep -E 'VIOLATION|^violation|KNOWN|HARNESS|done' | head -30", "/verif")
    code_check, _, _ = 0, 0, 0
    detected = "VIOLATION property=" in out
    meta["check_detects"] = detected
    meta["check_output"] = out[-3000:]
    meta["ran"].append(f"./check {prop} --tier quick on /repo with the patch ({dt:.0f}s): {'VIOLATION' if detected else 'no violation'}")
finally:
    git(["checkout", "--", "."], "/repo")
    # evidence and replay files written while a mutant was applied are not evidence
    for f in os.listdir("/verif/replays"):
        if f.endswith(".json"):
            os.remove(os.path.join("/verif/replays", f))
    subprocess.run(["git", "checkout", "--", "evidence"], cwd="/verif")
    # the binaries in /verif/bin were built from the mutated tree: rebuild them from the clean one
    subprocess.run(["./build.sh", {"C09": "fs", "C11": "fs", "C18": "cache"}.get(prop, "world")], cwd="/verif", stdout=subprocess.DEVNULL)
print("check detects:", meta.get("check_detects"))
print(meta.get("check_output", "")[:1500])
# ---- 3. record
if confirmed or "--keep-if-unconfirmed" in sys.argv:
    dst = os.path.join("/verif/seeded", f"{prop}-{label}")
    shutil.rmtree(dst, ignore_errors=True)
    os.makedirs(dst)
    shutil.copy(patch, os.path.join(dst, "patch.diff"))
    if os.path.exists(os.path.join(mdir, "README.md")):
        shutil.copy(os.path.join(mdir, "README.md"), os.path.join(dst, "README.md"))
    shutil.copytree(demo, os.path.join(dst, "demo"), ignore=shutil.ignore_patterns("target", "Cargo.lock"))
    json.dump(meta, open(os.path.join(dst, "meta.json"), "w"), indent=1)
    print("recorded", dst)
